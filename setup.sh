#!/bin/sh
# builds govc offline
set -e
cd "$(dirname "$0")"
export GOFLAGS=-mod=mod GOPROXY=off GOSUMDB=off GOTOOLCHAIN=local
mkdir -p bin evidence replays
(cd govc && go build -o ../bin/govc .)
echo "setup ok"
