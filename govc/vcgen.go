package main

// Verification-condition generation from go/ssa.

import (
	"regexp"
	"strconv"
	"fmt"
	"go/constant"
	"go/token"
	"go/types"
	"math"
	"math/big"
	"sort"
	"strings"

	"golang.org/x/tools/go/ssa"
)

type Obligation struct {
	Name   string
	Fn     string
	Kind   string
	Tags   []string
	Desc   string
	Query  string
	Expect string // "unsat" (proof obligation) or "sat" (vacuity probe)
	Result SolverResult
	Status string // discharged failed undecided
	Wit    []witness
	Pos    string
	CexExtra string // extra constraint used only when searching a counterexample
	QueryInst string // the query with the context's integer quantifiers instantiated at the function's index terms
	InLoops   []int  // ordinals of the loops this obligation belongs to (enclosing loops, and the loop it is about)
}

type witness struct{ Name, Term, Sort string }

type loopInfo struct {
	ord     int
	head    *ssa.BasicBlock
	blocks  map[*ssa.BasicBlock]bool
	headSt  *State // state after havoc
	preSt   *State // state before havoc (merged entry edges)
	phis    []*ssa.Phi
	mapIns  map[string]bool // map-domain kinds a call made by the loop may insert into
	mapInsTypes []*types.Map // types of the maps the loop body itself inserts into (m[k] = v)
	kinds   []string // heap kinds written in the loop
	allHav  bool
	allocs  bool
	sLocs   map[string][]string // kind -> head-evaluable written locations
	sWins   []window
	kindSet map[string]bool
	sRoots  map[string][]string // kind -> locations whose whole root object may be written
	rangePhi *ssa.Phi
	rangeN   string
	rangeC   int64
	rangePlus bool
	rangeTried bool
	autoDecr bool
	decrAt  []string // variant terms at head
}

type Gen struct {
	prog     *Program
	u        *Universe
	fn       *ssa.Function
	topFn    *ssa.Function // the function under contract (fn changes while a callee is inlined)
	lineTag  string        // appended as a comment to assumption lines (see assume)
	mrSeen    map[*ssa.Range]string // ghost location of the produced-keys set of a map range
	mrDom0    map[*ssa.Range]string // domain of the map when the range started
	key      string
	con      *Contract
	decls    []string
	declared map[string]bool
	lines    []string
	obls     []*Obligation
	vals     map[ssa.Value]Val
	nfresh   int
	blockR   map[*ssa.BasicBlock]string
	endSt    map[*ssa.BasicBlock]*State
	loops    map[*ssa.BasicBlock]*loopInfo
	inLoop   map[*ssa.BasicBlock][]*loopInfo
	old      *State
	penv     map[string]Val
	counters map[string]int
	rets     []retInfo
	closures map[ssa.Value]*ssa.MakeClosure
	defers   []*ssa.Defer
	deferR   map[*ssa.Defer]string
	stats    *FnStats
	wits     []witness
	epoch    int
	curBlock *ssa.BasicBlock
	onlyProp string
	rootTypes map[string]types.Type // array address term -> element type (modifies elems(x))
	sccOf    map[string]int
	frames   []havocFrame
	siteSeen map[string]map[ssa.Instruction]int
	pfx      string   // symbol prefix of the current inline instance
	entryR   string   // reachability of the entry block ("true" for the function itself)
	inlining []string // keys of functions currently being inlined
	ninline  int
	rangeSeen map[string]bool
	instShifts []string // lengths by which appended suffixes are shifted
	instPerms  []string // permutation functions introduced by sort.Slice
	loopEntryEnv map[int]*Env
	instIdx []string // index terms used by the function (instantiation candidates)
}

type retInfo struct {
	r       string
	results []Val
	st      *State
}

type FnStats struct {
	Uncontracted map[string]int
	Abstractions map[string]int
	TrustedUsed  map[string]bool
	Loops        int
}

func (g *Gen) fresh(prefix string) string {
	g.nfresh++
	return fmt.Sprintf("%s!%d", prefix, g.nfresh)
}

func (g *Gen) declare(name, sort string) {
	if g.declared[name] {
		return
	}
	g.declared[name] = true
	g.lines = append(g.lines, fmt.Sprintf("(declare-const %s %s)", name, sort))
}

func (g *Gen) define(name, sort, term string) {
	g.declared[name] = true
	if sort == "Bool" || sort == "Int" {
		g.lines = append(g.lines, fmt.Sprintf("(define-fun %s () %s %s)", name, sort, term))
		return
	}
	// non-scalar values (locations, slices, heaps, sequences) are declared constants with a defining
	// equation: macros would be expanded inside quantifier patterns, where ite/and are not allowed
	g.lines = append(g.lines, fmt.Sprintf("(declare-const %s %s)", name, sort), fmt.Sprintf("(assert (= %s %s))", name, term))
}

func (g *Gen) assume(t string) {
	if t == "" || t == "true" {
		return
	}
	if g.lineTag != "" {
		// the fact belongs to one loop (its invariant at the head, at entry or after an iteration): obligations of
		// other loops may be tried without it
		g.lines = append(g.lines, "(assert "+t+") ; "+g.lineTag)
		return
	}
	g.lines = append(g.lines, "(assert "+t+")")
}

func (g *Gen) guardAssume(guard, t string) {
	if t == "" || t == "true" {
		return
	}
	if guard == "true" {
		g.assume(t)
		return
	}
	g.assume("(=> " + guard + " " + t + ")")
}

func (g *Gen) freshConst(prefix, sort string) string {
	n := g.fresh(prefix)
	g.declare(n, sort)
	return n
}

// heap returns the term for the heap of the given kind in state st.
func (g *Gen) heap(st *State, kind string) string {
	if t, ok := st.H[kind]; ok {
		return t
	}
	if _, ok := g.u.kindSort[kind]; !ok {
		panic("heap kind not registered: " + kind)
	}
	name := "H0_" + kind
	if !g.declared[name] {
		g.declared[name] = true
		// heap declarations go to the front so that states can share them lazily
		g.decls = append(g.decls, fmt.Sprintf("(declare-const %s %s)", name, g.u.heapSort(kind)))
	}
	return name
}

// ghostZero: allocation zero-initialises ghost flags as well. The boolean ghost cells of the object
// that is about to be allocated (id = current allocation counter) are false. Emitted only in
// functions whose context already refers to boolean ghost state.
func (g *Gen) ghostZero(st *State, obj string) {
	if _, ok := g.u.kindSort["gbool"]; !ok {
		return
	}
	if _, cur := st.H["gbool"]; !cur && !g.declared["H0_gbool"] {
		return
	}
	h := g.heap(st, "gbool")
	g.assume("(forall ((l Loc)) (! (=> (= (l_obj l) " + obj + ") (not (select " + h + " l))) :pattern ((select " + h + " l))))")
}

func (g *Gen) setHeap(st *State, kind, term string) {
	name := g.fresh("H_" + kind)
	g.define(name, g.u.heapSort(kind), term)
	st.H[kind] = name
}

func (g *Gen) globalLoc(v *types.Var) string {
	name := v.Name()
	if v.Pkg() != nil {
		name = v.Pkg().Path() + "." + name
	}
	return fmt.Sprintf("(mkloc %s pnil)", smtI(int64(g.u.globalID(name))))
}

// ---------------------------------------------------------------- loads/stores

func fromRaw(x string, t types.Type) string {
	if b, ok := t.Underlying().(*types.Basic); ok && b.Kind() == types.Int8 {
		return "(wraps " + x + " 256)"
	}
	return x
}

func toRaw(x string, t types.Type) string {
	if b, ok := t.Underlying().(*types.Basic); ok && b.Kind() == types.Int8 {
		return "(wrapu " + x + " 256)"
	}
	return x
}

// loadType builds the term for the value of Go type t stored at loc.
// elemHint: loc is known to be an element of a byte array ("elm"), a scalar cell ("cell"), or unknown ("").
func (g *Gen) loadType(st *State, loc string, t types.Type, _ bool) string {
	return g.loadTypeH(st, loc, t, "")
}

func (g *Gen) loadTypeH(st *State, loc string, t types.Type, hint string) string {
	switch tt := t.Underlying().(type) {
	case *types.Struct:
		dt := g.u.structDatatype(t)
		if tt.NumFields() == 0 {
			return "(mk_" + dt + " 0)"
		}
		var fs []string
		for i := 0; i < tt.NumFields(); i++ {
			fs = append(fs, g.loadTypeH(st, fmt.Sprintf("(fld %s %d)", loc, g.u.fieldID(t, i)), tt.Field(i).Type(), "cell"))
		}
		return "(mk_" + dt + " " + strings.Join(fs, " ") + ")"
	case *types.Array:
		if isByteLike(tt.Elem()) {
			return "(select " + g.heap(st, g.u.kindOf(t)) + " " + loc + ")"
		}
		// array value from element cells
		es := g.u.sortOf(tt.Elem())
		if tt.Len() <= 8 {
			arr := fmt.Sprintf("((as const (Array Int %s)) %s)", es, g.zeroTerm(tt.Elem()))
			for i := int64(0); i < tt.Len(); i++ {
				arr = fmt.Sprintf("(store %s %d %s)", arr, i, g.loadTypeH(st, fmt.Sprintf("(elm %s %d)", loc, i), tt.Elem(), "cell"))
			}
			return arr
		}
		unsup("load of large non-byte array value %s", t)
	}
	if isByteLike(t) {
		k := g.u.kindOf(types.Typ[types.Uint8])
		if bk, ok := t.Underlying().(*types.Basic); ok && bk.Kind() == types.Int8 {
			k = g.int8Kind()
		}
		cell := "(select " + g.heap(st, k) + " " + loc + ")"
		if hint != "elm" {
			// Pointers to byte-sized values held in parameters or loaded from memory are
			// modelled as cells: element addresses of byte arrays are passed to callees by
			// copy-in/copy-out at the call site (see applyCall).
			return cell
		}
		g.u.kindSort["bytes"] = "(Seq Int)"
		el := fromRaw("(seq.nth (select "+g.heap(st, "bytes")+" (mkloc (l_obj "+loc+") (pth_ebase (l_path "+loc+")))) (pth_i (l_path "+loc+")))", t)
		return el
	}
	return "(select " + g.heap(st, g.u.kindOf(t)) + " " + loc + ")"
}

func (g *Gen) int8Kind() string {
	g.u.kindSort["i8"] = "Int"
	return "i8"
}

func (g *Gen) scalarKind(t types.Type) string {
	if bk, ok := t.Underlying().(*types.Basic); ok && bk.Kind() == types.Int8 {
		return g.int8Kind()
	}
	return g.u.kindOf(t)
}

// storeType updates st so that loc holds val (of Go type t).
func (g *Gen) storeType(st *State, loc string, t types.Type, val string, hint string) {
	switch tt := t.Underlying().(type) {
	case *types.Struct:
		dt := g.u.structDatatype(t)
		for i := 0; i < tt.NumFields(); i++ {
			g.storeType(st, fmt.Sprintf("(fld %s %d)", loc, g.u.fieldID(t, i)), tt.Field(i).Type(), fmt.Sprintf("(%s_f%d %s)", dt, i, val), "cell")
		}
		return
	case *types.Array:
		if isByteLike(tt.Elem()) {
			k := g.u.kindOf(t)
			g.setHeap(st, k, "(store "+g.heap(st, k)+" "+loc+" "+val+")")
			return
		}
		if tt.Len() <= 8 {
			for i := int64(0); i < tt.Len(); i++ {
				g.storeType(st, fmt.Sprintf("(elm %s %d)", loc, i), tt.Elem(), fmt.Sprintf("(select %s %d)", val, i), "cell")
			}
			return
		}
		unsup("store of large non-byte array value %s", t)
	}
	if isByteLike(t) && hint == "elm" {
		g.u.kindSort["bytes"] = "(Seq Int)"
		hb := g.heap(st, "bytes")
		arr := "(mkloc (l_obj " + loc + ") (pth_ebase (l_path " + loc + ")))"
		idx := "(pth_i (l_path " + loc + "))"
		upd := "(store " + hb + " " + arr + " (splice (select " + hb + " " + arr + ") " + idx + " (seq.unit " + toRaw(val, t) + ")))"
		g.setHeap(st, "bytes", upd)
		return
	}
	k := g.scalarKind(t)
	g.setHeap(st, k, "(store "+g.heap(st, k)+" "+loc+" "+val+")")
}

func (g *Gen) zeroTerm(t types.Type) string {
	switch tt := t.Underlying().(type) {
	case *types.Basic:
		switch {
		case tt.Info()&types.IsBoolean != 0:
			return "false"
		case tt.Info()&types.IsString != 0:
			return "(as seq.empty (Seq Int))"
		case tt.Kind() == types.UnsafePointer:
			return "(mkloc 0 pnil)"
		default:
			return "0"
		}
	case *types.Pointer, *types.Map, *types.Chan:
		return "(mkloc 0 pnil)"
	case *types.Signature:
		return "0"
	case *types.Slice:
		return "(mkslice (mkloc 0 pnil) 0 0 0)"
	case *types.Interface:
		return "(mkiface 0 (mkloc 0 pnil))"
	case *types.Struct:
		dt := g.u.structDatatype(t)
		if tt.NumFields() == 0 {
			return "(mk_" + dt + " 0)"
		}
		var fs []string
		for i := 0; i < tt.NumFields(); i++ {
			fs = append(fs, g.zeroTerm(tt.Field(i).Type()))
		}
		return "(mk_" + dt + " " + strings.Join(fs, " ") + ")"
	case *types.Array:
		if isByteLike(tt.Elem()) {
			return zerosTerm(tt.Len())
		}
		return fmt.Sprintf("((as const (Array Int %s)) %s)", g.u.sortOf(tt.Elem()), g.zeroTerm(tt.Elem()))
	}
	unsup("zero value of %s", t)
	return ""
}

func zerosTerm(n int64) string {
	if n == 0 {
		return "emptyseq"
	}
	if n <= 16 {
		parts := make([]string, n)
		for i := range parts {
			parts[i] = "(seq.unit 0)"
		}
		if n == 1 {
			return parts[0]
		}
		return "(seq.++ " + strings.Join(parts, " ") + ")"
	}
	return fmt.Sprintf("(zeros %d)", n)
}

// typeFacts returns assumptions that hold for any value of Go type t (range, allocatedness).
func (g *Gen) typeFacts(st *State, x string, t types.Type) string {
	switch tt := t.Underlying().(type) {
	case *types.Basic:
		if tt.Info()&types.IsInteger != 0 || tt.Info()&types.IsFloat != 0 {
			return rangeFact(x, t)
		}
		if tt.Info()&types.IsString != 0 {
			return ""
		}
		if tt.Kind() == types.UnsafePointer {
			return "(< (l_obj " + x + ") " + st.A + ")"
		}
	case *types.Pointer:
		return "(< (l_obj " + x + ") " + st.A + ")"
	case *types.Map, *types.Chan:
		return "(< (l_obj " + x + ") " + st.A + ")"
	case *types.Slice:
		f := "(and (validslice " + x + ") (< (l_obj (s_arr " + x + ")) " + st.A + ")"
		if isByteLike(tt.Elem()) {
			g.u.kindSort["bytes"] = "(Seq Int)"
			f += " (validbytes " + g.heap(st, "bytes") + " " + x + ")"
		}
		return f + ")"
	case *types.Interface:
		return "(and (< (l_obj (i_val " + x + ")) " + st.A + ") (>= (i_typ " + x + ") 0) (=> (= (i_typ " + x + ") 0) (= " + x + " nilif)))"
	case *types.Struct:
		dt := g.u.structDatatype(t)
		var fs []string
		for i := 0; i < tt.NumFields(); i++ {
			f := g.typeFacts(st, fmt.Sprintf("(%s_f%d %s)", dt, i, x), tt.Field(i).Type())
			if f != "" {
				fs = append(fs, f)
			}
		}
		if len(fs) == 0 {
			return ""
		}
		return "(and " + strings.Join(fs, " ") + ")"
	case *types.Array:
		if isByteLike(tt.Elem()) {
			return fmt.Sprintf("(= (seq.len %s) %d)", x, tt.Len())
		}
	}
	return ""
}

// ---------------------------------------------------------------- values

func (g *Gen) val(v ssa.Value) Val {
	switch c := v.(type) {
	case *ssa.Const:
		return g.constVal(c)
	case *ssa.Global:
		obj, _ := c.Object().(*types.Var)
		var loc string
		if obj != nil {
			loc = g.globalLoc(obj)
		} else {
			loc = fmt.Sprintf("(mkloc %s pnil)", smtI(int64(g.u.globalID(c.String()))))
		}
		return Val{T: loc, Sort: "Loc", GoT: c.Type()}
	case *ssa.Function:
		return Val{T: fmt.Sprint(g.u.funcID(fnKey(c))), Sort: "Int", GoT: c.Type()}
	case *ssa.Builtin:
		return Val{T: "0", Sort: "Int"}
	}
	if x, ok := g.vals[v]; ok {
		return x
	}
	panic(fmt.Errorf("value %s (%T) used before definition in %s", v.Name(), v, g.key))
}

func (g *Gen) constVal(c *ssa.Const) Val {
	t := c.Type()
	if c.Value == nil {
		if b, ok := t.Underlying().(*types.Basic); ok && b.Kind() == types.UntypedNil {
			return Val{T: "nilloc", Sort: "Loc", GoT: t}
		}
		return Val{T: g.zeroTerm(t), Sort: g.u.sortOf(t), GoT: t}
	}
	switch {
	case isFloat(t):
		f, _ := constant.Float64Val(constant.ToFloat(c.Value))
		var bits uint64
		if t.Underlying().(*types.Basic).Kind() == types.Float32 {
			bits = uint64(math.Float32bits(float32(f)))
		} else {
			bits = math.Float64bits(f)
		}
		return Val{T: new(big.Int).SetUint64(bits).String(), Sort: "Int", GoT: t}
	case c.Value.Kind() == constant.Bool:
		if constant.BoolVal(c.Value) {
			return Val{T: "true", Sort: "Bool", GoT: t}
		}
		return Val{T: "false", Sort: "Bool", GoT: t}
	case c.Value.Kind() == constant.Int:
		n, _ := new(big.Int).SetString(c.Value.ExactString(), 10)
		return Val{T: smtInt(n), Sort: "Int", GoT: t}
	case c.Value.Kind() == constant.String:
		return Val{T: seqOfString(constant.StringVal(c.Value)), Sort: "(Seq Int)", GoT: t}
	}
	unsup("constant %s", c)
	return Val{}
}

func (g *Gen) symName(v ssa.Value) string {
	switch v.(type) {
	case *ssa.Parameter:
		return g.pfx + "p_" + sanitize(v.Name())
	case *ssa.FreeVar:
		return g.pfx + "fv_" + sanitize(v.Name())
	}
	return g.pfx + sanitize(v.Name())
}

func (g *Gen) defVal(v ssa.Value, term string) Val {
	s := g.u.sortOf(v.Type())
	n := g.symName(v)
	g.define(n, s, term)
	x := Val{T: n, Sort: s, GoT: v.Type()}
	g.vals[v] = x
	return x
}

func (g *Gen) freshVal(v ssa.Value, st *State, guard string) Val {
	s := g.u.sortOf(v.Type())
	n := g.symName(v)
	if g.declared[n] {
		n = g.fresh(n)
	}
	g.declare(n, s)
	x := Val{T: n, Sort: s, GoT: v.Type()}
	g.vals[v] = x
	g.assume(g.typeFacts(st, n, v.Type()))
	return x
}

// ---------------------------------------------------------------- obligations

func (g *Gen) oblName(kind string) string {
	g.counters[kind]++
	return fmt.Sprintf("%s/%s#%d", shortKey(g.key), kind, g.counters[kind]-1)
}

func shortKey(k string) string {
	k = strings.ReplaceAll(k, "github.com/TarsCloud/TarsGo/tars/", "")
	return k
}

func (g *Gen) posOf(p token.Pos) string {
	if !p.IsValid() {
		return ""
	}
	pp := g.prog.fset.Position(p)
	return fmt.Sprintf("%s:%d", pp.Filename, pp.Line)
}

// oblige emits a proof obligation: under guard, formula must hold. Afterwards it is assumed.
func (g *Gen) oblige(name, kind string, tags []string, guard, formula, desc string, pos token.Pos) {
	if formula == "true" {
		return
	}
	o := &Obligation{Name: name, Fn: g.key, Kind: kind, Tags: tags, Desc: desc, Expect: "unsat", Pos: g.posOf(pos)}
	var sb strings.Builder
	sb.WriteString(g.header())
	for _, l := range g.lines {
		sb.WriteString(l)
		sb.WriteByte('\n')
	}
	goal := formula
	if strings.Contains(formula, "(forall ((") {
		if sg, decls, terms, ok := g.skolemiseGoal(formula); ok {
			// shifted copies of the skolem index (appends) and permutation images (sort)
			all := append([]string{}, terms...)
			for _, t := range terms {
				// neighbours of the skolem index (an element removed or inserted shifts the rest by one)
				all = append(all, "(+ "+t+" 1)", "(- "+t+" 1)")
			}
			for _, t := range terms {
				for _, sh := range g.instShifts {
					all = append(all, "(- "+t+" "+sh+")", "(+ "+sh+" "+t+")")
				}
				for _, pf := range g.instPerms {
					all = append(all, "("+pf+" "+t+")")
				}
			}
			seen := map[string]bool{}
			for _, t := range all {
				seen[t] = true
			}
			for _, t := range g.instIdx {
				if !seen[t] {
					seen[t] = true
					all = append(all, t)
				}
			}
			all = append(all, "0")
			for _, d := range decls {
				sb.WriteString(d + "\n")
			}
			for _, l := range g.instantiateContext(all) {
				sb.WriteString(l + "\n")
			}
			goal = hintAntecedents(sg, all)
		}
	}
	sb.WriteString("; obligation " + name + ": " + strings.ReplaceAll(desc, "\n", " ") + "\n")
	sb.WriteString("(assert " + guard + ")\n")
	sb.WriteString("(assert (not " + goal + "))\n")
	sb.WriteString("(check-sat)\n")
	o.Wit = append([]witness{}, g.wits...)
	if len(o.Wit) > 0 {
		sb.WriteString("(get-value (")
		for _, w := range o.Wit {
			sb.WriteString(w.Term + " ")
		}
		sb.WriteString("))\n")
	}
	o.Query = sb.String()
	if goal == formula && len(g.instIdx) > 0 {
		// fallback query: same obligation, plus instances of the context's integer-quantified
		// assumptions at the index terms the function uses (tried only if the plain query fails)
		insts := g.instantiateContext(append([]string{"0"}, g.instIdx...))
		if len(insts) > 0 {
			mark := "; obligation " + name + ":"
			if k := strings.Index(o.Query, mark); k > 0 {
				o.QueryInst = o.Query[:k] + strings.Join(insts, "\n") + "\n" + o.Query[k:]
			}
		}
	}
	if o.QueryInst == "" && strings.Contains(formula, "(exists ((") && len(g.instIdx) > 0 {
		// goal with an integer existential: try the index terms the function uses as witnesses
		// (the instantiated goal implies the original one)
		if xs := parseSx(formula); len(xs) == 1 {
			if ig, ok := replaceIntExists(xs[0], true, append([]string{"0"}, g.instIdx...)); ok {
				mark := "(assert (not " + goal + "))\n"
				if k := strings.LastIndex(o.Query, mark); k > 0 {
					o.QueryInst = o.Query[:k] + "(assert (not " + ig + "))\n" + o.Query[k+len(mark):]
				}
			}
		}
	}
	g.obls = append(g.obls, o)
	own := -1
	if m := loopOblRe.FindStringSubmatch(name); m != nil && len(g.inlining) == 0 {
		own, _ = strconv.Atoi(m[1])
		o.InLoops = append(o.InLoops, own)
	}
	if len(g.inlining) == 0 && g.curBlock != nil {
		for _, li := range g.inLoop[g.curBlock] {
			if li.ord != own {
				o.InLoops = append(o.InLoops, li.ord)
			}
		}
	}
	// assert-then-assume, but only for obligations that the current property check
	// reports: a failing obligation of another property must not mask a failure here.
	if relevant(o, g.con, g.onlyProp) {
		if own >= 0 && (kind == "inv-entry" || kind == "inv-preserved") {
			g.lineTag = fmt.Sprintf("@loop:%d", own)
		}
		g.guardAssume(guard, formula)
		g.lineTag = ""
	}
}

var loopOblRe = regexp.MustCompile(`/loop(\d+)-`)

// probe emits a vacuity probe: the context plus guard must be satisfiable.
func (g *Gen) probe(name, guard, desc string) {
	o := &Obligation{Name: name, Fn: g.key, Kind: "vacuity", Desc: desc, Expect: "sat"}
	var sb strings.Builder
	// quantified axioms are dropped for probes: fewer assumptions can only make the
	// query easier to satisfy, so an "unsat" answer still proves real vacuity, and the
	// solvers can return "sat" instead of "unknown".
	for _, l := range strings.Split(g.header(), "\n") {
		if !strings.Contains(l, "(forall ") {
			sb.WriteString(l + "\n")
		}
	}
	for _, l := range g.lines {
		if strings.Contains(l, "(forall ") {
			continue
		}
		sb.WriteString(l)
		sb.WriteByte('\n')
	}
	sb.WriteString("; vacuity probe " + name + "\n(assert " + guard + ")\n(check-sat)\n")
	o.Query = sb.String()
	g.obls = append(g.obls, o)
}

func (g *Gen) header() string {
	var sb strings.Builder
	sb.WriteString("(set-logic ALL)\n")
	sb.WriteString(smtPrelude)
	for _, d := range g.u.structDecl {
		sb.WriteString(d + "\n")
	}
	sb.WriteString("; BEGIN-SPEC\n")
	sp := g.prog.specPrelude
	if g.con != nil {
		for _, n := range g.con.Opaque {
			if i := strings.Index(n, ":"); i >= 0 {
				if g.onlyProp != n[:i] {
					continue
				}
				n = n[i+1:]
			}
			if n == "*" {
				for _, d := range g.prog.specOpaque {
					sp = strings.Replace(sp, d[0], d[1], 1)
				}
				continue
			}
			if d, ok := g.prog.specOpaque[n]; ok {
				sp = strings.Replace(sp, d[0], d[1], 1)
			} else {
				panic(fmt.Errorf("opaque: unknown spec function %s", n))
			}
		}
	}
	sb.WriteString(sp)
	sb.WriteString("; END-SPEC\n")
	for _, d := range g.decls {
		sb.WriteString(d + "\n")
	}
	return sb.String()
}

// ---------------------------------------------------------------- function keys

func fnKey(fn *ssa.Function) string {
	if fn.Parent() != nil {
		// closure: parent key + suffix after the parent's name
		pk := fnKey(fn.Parent())
		suffix := strings.TrimPrefix(fn.Name(), fn.Parent().Name())
		return pk + suffix
	}
	pkgPath := ""
	if fn.Pkg != nil {
		pkgPath = fn.Pkg.Pkg.Path()
	} else if fn.Object() != nil && fn.Object().Pkg() != nil {
		pkgPath = fn.Object().Pkg().Path()
	}
	if recv := fn.Signature.Recv(); recv != nil {
		t := recv.Type()
		ptr := ""
		if p, ok := t.(*types.Pointer); ok {
			t = p.Elem()
			ptr = "*"
		}
		name := t.String()
		if n, ok := t.(*types.Named); ok {
			name = n.Obj().Name()
			if n.Obj().Pkg() != nil {
				pkgPath = n.Obj().Pkg().Path()
			}
		}
		return fmt.Sprintf("%s.(%s%s).%s", pkgPath, ptr, name, fn.Name())
	}
	return pkgPath + "." + fn.Name()
}

func ifaceMethodKey(t types.Type, m *types.Func) string {
	if n, ok := t.(*types.Named); ok {
		pkg := ""
		if n.Obj().Pkg() != nil {
			pkg = n.Obj().Pkg().Path() + "."
		}
		return fmt.Sprintf("%s(%s).%s", pkg, n.Obj().Name(), m.Name())
	}
	return fmt.Sprintf("(%s).%s", t.String(), m.Name())
}

// ---------------------------------------------------------------- CFG helpers

func rpo(fn *ssa.Function, isBack func(p, s *ssa.BasicBlock) bool) []*ssa.BasicBlock {
	seen := map[*ssa.BasicBlock]bool{}
	var post []*ssa.BasicBlock
	var dfs func(b *ssa.BasicBlock)
	dfs = func(b *ssa.BasicBlock) {
		seen[b] = true
		for i := len(b.Succs) - 1; i >= 0; i-- {
			s := b.Succs[i]
			if isBack(b, s) || seen[s] {
				continue
			}
			dfs(s)
		}
		post = append(post, b)
	}
	dfs(fn.Blocks[0])
	for i, j := 0, len(post)-1; i < j; i, j = i+1, j-1 {
		post[i], post[j] = post[j], post[i]
	}
	return post
}

func (g *Gen) findLoops() {
	fn := g.fn
	g.loops = map[*ssa.BasicBlock]*loopInfo{}
	g.inLoop = map[*ssa.BasicBlock][]*loopInfo{}
	for _, b := range fn.Blocks {
		for _, s := range b.Succs {
			if s.Dominates(b) {
				li := g.loops[s]
				if li == nil {
					li = &loopInfo{head: s, blocks: map[*ssa.BasicBlock]bool{s: true}, sLocs: map[string][]string{}}
					g.loops[s] = li
				}
				// natural loop: nodes reaching b without passing through s
				var stack []*ssa.BasicBlock
				if !li.blocks[b] {
					li.blocks[b] = true
					stack = append(stack, b)
				}
				for len(stack) > 0 {
					x := stack[len(stack)-1]
					stack = stack[:len(stack)-1]
					for _, p := range x.Preds {
						if !li.blocks[p] {
							li.blocks[p] = true
							stack = append(stack, p)
						}
					}
				}
			}
		}
	}
	var heads []*ssa.BasicBlock
	for h := range g.loops {
		heads = append(heads, h)
	}
	sort.Slice(heads, func(i, j int) bool { return heads[i].Index < heads[j].Index })
	for i, h := range heads {
		g.loops[h].ord = i
		for _, ins := range h.Instrs {
			if p, ok := ins.(*ssa.Phi); ok {
				g.loops[h].phis = append(g.loops[h].phis, p)
			}
		}
		for b := range g.loops[h].blocks {
			g.inLoop[b] = append(g.inLoop[b], g.loops[h])
		}
	}
	g.stats.Loops = len(heads)
}

func isBackEdge(p, s *ssa.BasicBlock) bool { return s.Dominates(p) }

// edgeCond returns the condition under which control flows along the k-th
// occurrence of edge p->b.
func (g *Gen) edgeCond(p *ssa.BasicBlock, succIdx int) string {
	last := p.Instrs[len(p.Instrs)-1]
	switch t := last.(type) {
	case *ssa.If:
		c := g.val(t.Cond).T
		if succIdx == 0 {
			return c
		}
		return "(not " + c + ")"
	case *ssa.Jump:
		return "true"
	}
	return "true"
}

func (g *Gen) mergeStates(edges []string, sts []*State) *State {
	if len(sts) == 1 {
		return sts[0].clone()
	}
	out := &State{H: map[string]string{}}
	kinds := map[string]bool{}
	for _, s := range sts {
		for k := range s.H {
			kinds[k] = true
		}
	}
	ks := make([]string, 0, len(kinds))
	for k := range kinds {
		ks = append(ks, k)
	}
	sort.Strings(ks)
	for _, k := range ks {
		same := true
		first := g.heap(sts[0], k)
		for _, s := range sts[1:] {
			if g.heap(s, k) != first {
				same = false
			}
		}
		if same {
			out.H[k] = first
			continue
		}
		t := g.heap(sts[len(sts)-1], k)
		for i := len(sts) - 2; i >= 0; i-- {
			t = "(ite " + edges[i] + " " + g.heap(sts[i], k) + " " + t + ")"
		}
		g.setHeap(out, k, t)
	}
	sameA := true
	for _, s := range sts[1:] {
		if s.A != sts[0].A {
			sameA = false
		}
	}
	if sameA {
		out.A = sts[0].A
	} else {
		t := sts[len(sts)-1].A
		for i := len(sts) - 2; i >= 0; i-- {
			t = "(ite " + edges[i] + " " + sts[i].A + " " + t + ")"
		}
		n := g.fresh("A")
		g.define(n, "Int", t)
		out.A = n
	}
	return out
}

func orTerms(ts []string) string {
	if len(ts) == 0 {
		return "false"
	}
	if len(ts) == 1 {
		return ts[0]
	}
	return "(or " + strings.Join(ts, " ") + ")"
}

func andTerms(ts []string) string {
	var out []string
	for _, t := range ts {
		if t != "" && t != "true" {
			out = append(out, t)
		}
	}
	if len(out) == 0 {
		return "true"
	}
	if len(out) == 1 {
		return out[0]
	}
	return "(and " + strings.Join(out, " ") + ")"
}
