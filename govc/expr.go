package main

// Expression language shared by contracts (//@ lines) and spec files (.gvs).
// Go-like expressions plus ==>, <==>, ++ (sequence concatenation), c ? a : b,
// old(e), forall/exists, let, sequence literals [a, b].

import (
	"fmt"
	"math/big"
	"strings"
	"unicode"
)

type Expr struct {
	Op    string // int bool nil str id call field index slice unop binop ite forall exists let seqlit old
	Name  string // identifier, field name, operator, callee
	Int   *big.Int
	Str   string
	Args  []*Expr
	Bound []Param // forall/exists/let
	Pos   string
}

type Param struct {
	Name string
	Type string // spec type name: int bool seq loc ... ; "" = int
}

func (e *Expr) String() string {
	if e == nil {
		return "<nil>"
	}
	switch e.Op {
	case "int":
		return e.Int.String()
	case "bool", "id":
		return e.Name
	case "nil":
		return "nil"
	case "str":
		return fmt.Sprintf("%q", e.Str)
	case "call":
		var a []string
		for _, x := range e.Args {
			a = append(a, x.String())
		}
		return e.Name + "(" + strings.Join(a, ", ") + ")"
	case "old":
		return "old(" + e.Args[0].String() + ")"
	case "field":
		return e.Args[0].String() + "." + e.Name
	case "index":
		return e.Args[0].String() + "[" + e.Args[1].String() + "]"
	case "slice":
		lo, hi := "", ""
		if e.Args[1] != nil {
			lo = e.Args[1].String()
		}
		if e.Args[2] != nil {
			hi = e.Args[2].String()
		}
		return e.Args[0].String() + "[" + lo + ":" + hi + "]"
	case "unop":
		return e.Name + e.Args[0].String()
	case "binop":
		return "(" + e.Args[0].String() + " " + e.Name + " " + e.Args[1].String() + ")"
	case "ite":
		return "(" + e.Args[0].String() + " ? " + e.Args[1].String() + " : " + e.Args[2].String() + ")"
	case "forall", "exists":
		var b []string
		for _, p := range e.Bound {
			b = append(b, p.Name)
		}
		return "(" + e.Op + " " + strings.Join(b, ", ") + " :: " + e.Args[0].String() + ")"
	case "let":
		return "(let " + e.Bound[0].Name + " = " + e.Args[0].String() + " in " + e.Args[1].String() + ")"
	case "seqlit":
		var a []string
		for _, x := range e.Args {
			a = append(a, x.String())
		}
		return "[" + strings.Join(a, ", ") + "]"
	}
	return "?" + e.Op
}

type tok struct {
	kind string // id int str punct eof
	text string
}

type lexer struct {
	src  string
	pos  int
	toks []tok
	i    int
	where string
}

var puncts = []string{"<==>", "==>", "::", "++", "==", "!=", "<=", ">=", "&&", "||", "(", ")", "[", "]", "{", "}", ",", ".", ":", "?", "+", "-", "*", "/", "%", "<", ">", "!", "=", "|", "&"}

func lexAll(src, where string) (*lexer, error) {
	lx := &lexer{src: src, where: where}
	for {
		for lx.pos < len(src) && (src[lx.pos] == ' ' || src[lx.pos] == '\t' || src[lx.pos] == '\n' || src[lx.pos] == '\r') {
			lx.pos++
		}
		if lx.pos >= len(src) {
			break
		}
		c := src[lx.pos]
		switch {
		case c == '"':
			j := lx.pos + 1
			var sb strings.Builder
			for j < len(src) && src[j] != '"' {
				if src[j] == '\\' && j+1 < len(src) {
					j++
					switch src[j] {
					case 'n':
						sb.WriteByte('\n')
					case 't':
						sb.WriteByte('\t')
					default:
						sb.WriteByte(src[j])
					}
				} else {
					sb.WriteByte(src[j])
				}
				j++
			}
			if j >= len(src) {
				return nil, fmt.Errorf("%s: unterminated string", where)
			}
			lx.toks = append(lx.toks, tok{"str", sb.String()})
			lx.pos = j + 1
		case c >= '0' && c <= '9':
			j := lx.pos
			for j < len(src) && (isIdentChar(rune(src[j]))) {
				j++
			}
			lx.toks = append(lx.toks, tok{"int", src[lx.pos:j]})
			lx.pos = j
		case isIdentStart(rune(c)):
			j := lx.pos
			for j < len(src) && (isIdentChar(rune(src[j])) || src[j] == '$' || src[j] == '#') {
				j++
			}
			lx.toks = append(lx.toks, tok{"id", src[lx.pos:j]})
			lx.pos = j
		default:
			ok := false
			for _, p := range puncts {
				if strings.HasPrefix(src[lx.pos:], p) {
					lx.toks = append(lx.toks, tok{"punct", p})
					lx.pos += len(p)
					ok = true
					break
				}
			}
			if !ok {
				return nil, fmt.Errorf("%s: bad character %q in %q", where, c, src)
			}
		}
	}
	lx.toks = append(lx.toks, tok{"eof", ""})
	return lx, nil
}

func isIdentStart(r rune) bool { return r == '_' || r == '$' || r == '#' || unicode.IsLetter(r) }
func isIdentChar(r rune) bool  { return r == '_' || unicode.IsLetter(r) || unicode.IsDigit(r) }

func (lx *lexer) peek() tok { return lx.toks[lx.i] }
func (lx *lexer) next() tok { t := lx.toks[lx.i]; lx.i++; return t }
func (lx *lexer) isP(p string) bool {
	t := lx.peek()
	return t.kind == "punct" && t.text == p
}
func (lx *lexer) isID(p string) bool {
	t := lx.peek()
	return t.kind == "id" && t.text == p
}
func (lx *lexer) accept(p string) bool {
	if lx.isP(p) {
		lx.i++
		return true
	}
	return false
}
func (lx *lexer) expect(p string) {
	if !lx.accept(p) {
		panic(fmt.Errorf("%s: expected %q, found %q in %q", lx.where, p, lx.peek().text, lx.src))
	}
}

func ParseExpr(src, where string) (e *Expr, err error) {
	lx, err := lexAll(src, where)
	if err != nil {
		return nil, err
	}
	defer func() {
		if r := recover(); r != nil {
			if er, ok := r.(error); ok {
				err = er
				return
			}
			panic(r)
		}
	}()
	e = lx.parseExpr(0)
	if lx.peek().kind != "eof" {
		return nil, fmt.Errorf("%s: trailing input %q in %q", where, lx.peek().text, src)
	}
	return e, nil
}

// precedence table for binary operators
var binPrec = map[string]int{
	"<==>": 1, "==>": 2, "||": 3, "&&": 4,
	"==": 5, "!=": 5, "<": 5, "<=": 5, ">": 5, ">=": 5,
	"++": 6, "+": 6, "-": 6,
	"*": 7, "/": 7, "%": 7,
}

func (lx *lexer) parseExpr(min int) *Expr {
	// quantifiers and let bind as loosely as possible
	if lx.isID("forall") || lx.isID("exists") {
		op := lx.next().text
		var bs []Param
		for {
			n := lx.next()
			if n.kind != "id" {
				panic(fmt.Errorf("%s: bad bound variable in %q", lx.where, lx.src))
			}
			p := Param{Name: n.text, Type: "int"}
			if lx.accept(":") {
				if lx.accept("*") {
					// typed pointer: forall l: *T
					p.Type = "*" + lx.next().text
				} else {
					p.Type = lx.next().text
				}
			}
			bs = append(bs, p)
			if !lx.accept(",") {
				break
			}
		}
		var pats []*Expr
		for lx.accept("{") {
			// several {..} groups are alternative patterns; a group with commas is one multi-pattern
			if len(pats) > 0 {
				pats = append(pats, &Expr{Op: "patsep"})
			}
			for !lx.isP("}") {
				pats = append(pats, lx.parseExpr(0))
				if !lx.accept(",") {
					break
				}
			}
			lx.expect("}")
		}
		lx.expect("::")
		body := lx.parseExpr(0)
		return &Expr{Op: op, Bound: bs, Args: append([]*Expr{body}, pats...)}
	}
	if lx.isID("let") {
		lx.next()
		n := lx.next()
		lx.expect("=")
		v := lx.parseExpr(0)
		if !lx.isID("in") {
			panic(fmt.Errorf("%s: expected 'in' in %q", lx.where, lx.src))
		}
		lx.next()
		body := lx.parseExpr(0)
		return &Expr{Op: "let", Bound: []Param{{Name: n.text}}, Args: []*Expr{v, body}}
	}
	lhs := lx.parseUnary()
	for {
		t := lx.peek()
		if t.kind == "punct" && t.text == "?" && min <= 0 {
			lx.next()
			a := lx.parseExpr(0)
			lx.expect(":")
			b := lx.parseExpr(0)
			lhs = &Expr{Op: "ite", Args: []*Expr{lhs, a, b}}
			continue
		}
		if t.kind != "punct" {
			break
		}
		p, ok := binPrec[t.text]
		if !ok || p < min {
			break
		}
		lx.next()
		var rhs *Expr
		if t.text == "==>" { // right associative
			rhs = lx.parseExpr(p)
		} else {
			rhs = lx.parseExpr(p + 1)
		}
		lhs = &Expr{Op: "binop", Name: t.text, Args: []*Expr{lhs, rhs}}
	}
	return lhs
}

func (lx *lexer) parseUnary() *Expr {
	if lx.accept("!") {
		return &Expr{Op: "unop", Name: "!", Args: []*Expr{lx.parseUnary()}}
	}
	if lx.accept("-") {
		return &Expr{Op: "unop", Name: "-", Args: []*Expr{lx.parseUnary()}}
	}
	if lx.accept("*") {
		return &Expr{Op: "unop", Name: "*", Args: []*Expr{lx.parseUnary()}}
	}
	if lx.accept("&") {
		return &Expr{Op: "unop", Name: "&", Args: []*Expr{lx.parseUnary()}}
	}
	return lx.parsePostfix(lx.parsePrimary())
}

func (lx *lexer) parsePostfix(e *Expr) *Expr {
	for {
		switch {
		case lx.accept("."):
			n := lx.next()
			if n.kind != "id" {
				panic(fmt.Errorf("%s: bad field name in %q", lx.where, lx.src))
			}
			e = &Expr{Op: "field", Name: n.text, Args: []*Expr{e}}
		case lx.accept("["):
			var lo, hi *Expr
			if lx.isP(":") {
				lx.next()
				if !lx.isP("]") {
					hi = lx.parseExpr(0)
				}
				lx.expect("]")
				e = &Expr{Op: "slice", Args: []*Expr{e, nil, hi}}
				continue
			}
			lo = lx.parseExpr(0)
			if lx.accept(":") {
				if !lx.isP("]") {
					hi = lx.parseExpr(0)
				}
				lx.expect("]")
				e = &Expr{Op: "slice", Args: []*Expr{e, lo, hi}}
				continue
			}
			lx.expect("]")
			e = &Expr{Op: "index", Args: []*Expr{e, lo}}
		default:
			return e
		}
	}
}

func (lx *lexer) parsePrimary() *Expr {
	t := lx.next()
	switch t.kind {
	case "int":
		n := new(big.Int)
		if _, ok := n.SetString(t.text, 0); !ok {
			panic(fmt.Errorf("%s: bad integer %q", lx.where, t.text))
		}
		return &Expr{Op: "int", Int: n}
	case "str":
		return &Expr{Op: "str", Str: t.text}
	case "id":
		switch t.text {
		case "true", "false":
			return &Expr{Op: "bool", Name: t.text}
		case "nil":
			return &Expr{Op: "nil"}
		}
		if lx.accept("(") {
			var args []*Expr
			for !lx.isP(")") {
				args = append(args, lx.parseExpr(0))
				if !lx.accept(",") {
					break
				}
			}
			lx.expect(")")
			if t.text == "old" {
				if len(args) != 1 {
					panic(fmt.Errorf("%s: old takes one argument", lx.where))
				}
				return &Expr{Op: "old", Args: args}
			}
			return &Expr{Op: "call", Name: t.text, Args: args}
		}
		return &Expr{Op: "id", Name: t.text}
	case "punct":
		switch t.text {
		case "(":
			e := lx.parseExpr(0)
			lx.expect(")")
			return e
		case "[":
			var args []*Expr
			for !lx.isP("]") {
				args = append(args, lx.parseExpr(0))
				if !lx.accept(",") {
					break
				}
			}
			lx.expect("]")
			return &Expr{Op: "seqlit", Args: args}
		}
	}
	panic(fmt.Errorf("%s: unexpected %q in %q", lx.where, t.text, lx.src))
}
