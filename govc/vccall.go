package main

import (
	"regexp"
	"fmt"
	"go/token"
	"go/types"
	"sort"
	"strings"

	"golang.org/x/tools/go/ssa"
)

type callInfo struct {
	key      string
	con      *Contract
	formals  []string
	args     []ssa.Value
	argTypes []types.Type
	sig      *types.Signature
	pkg      *types.Package
	fn       *ssa.Function
	inlineFn *ssa.Function
	dynamic  bool
}

func sigFormals(sig *types.Signature, withRecv bool) []string {
	var out []string
	if withRecv && sig.Recv() != nil {
		n := sig.Recv().Name()
		if n == "" || n == "_" {
			n = "recv"
		}
		out = append(out, n)
	}
	for i := 0; i < sig.Params().Len(); i++ {
		n := sig.Params().At(i).Name()
		if n == "" || n == "_" {
			n = fmt.Sprintf("a%d", i)
		}
		out = append(out, n)
	}
	return out
}

func (g *Gen) resolveCall(cc *ssa.CallCommon) *callInfo {
	ci := &callInfo{sig: cc.Signature()}
	if cc.IsInvoke() {
		ci.key = ifaceMethodKey(cc.Value.Type(), cc.Method)
		ci.args = append([]ssa.Value{cc.Value}, cc.Args...)
		ci.formals = append([]string{"self"}, sigFormals(cc.Method.Type().(*types.Signature), false)...)
		if cc.Method.Pkg() != nil {
			ci.pkg = cc.Method.Pkg()
		}
	} else if fn := cc.StaticCallee(); fn != nil {
		ci.fn = fn
		ci.key = fnKey(fn)
		ci.args = append([]ssa.Value{}, cc.Args...)
		if len(fn.Params) > 0 || len(fn.Blocks) > 0 {
			for _, p := range fn.Params {
				ci.formals = append(ci.formals, p.Name())
			}
		} else {
			ci.formals = sigFormals(fn.Signature, true)
		}
		if mc, ok := cc.Value.(*ssa.MakeClosure); ok {
			for i, fv := range fn.FreeVars {
				ci.formals = append(ci.formals, fv.Name())
				ci.args = append(ci.args, mc.Bindings[i])
			}
		}
		if fn.Pkg != nil {
			ci.pkg = fn.Pkg.Pkg
		} else if fn.Object() != nil {
			ci.pkg = fn.Object().Pkg()
		}
	} else {
		ci.dynamic = true
		ci.key = "dynamic:" + cc.Value.Type().String()
		ci.args = append([]ssa.Value{cc.Value}, cc.Args...)
		ci.formals = append([]string{"self"}, sigFormals(cc.Signature(), false)...)
		for _, a := range ci.args {
			ci.argTypes = append(ci.argTypes, a.Type())
		}
		if c, ok := g.prog.specs.Contracts[ci.key]; ok {
			ci.con = c
			if len(c.Formals) > 0 {
				ci.formals = c.Formals
			}
		}
		if g.fn.Pkg != nil {
			ci.pkg = g.fn.Pkg.Pkg
		}
		return ci
	}
	for _, a := range ci.args {
		ci.argTypes = append(ci.argTypes, a.Type())
	}
	if c, ok := g.prog.specs.Contracts[ci.key]; ok {
		ci.con = c
		if len(c.Formals) > 0 {
			ci.formals = c.Formals
		}
	}
	return ci
}

func (g *Gen) callInstr(v ssa.Value, ins ssa.CallInstruction, st *State, r string) {
	cc := ins.Common()
	if b, ok := cc.Value.(*ssa.Builtin); ok && !cc.IsInvoke() {
		g.builtin(v, b.Name(), cc, st, r, ins)
		return
	}
	ci := g.resolveCall(cc)
	if ci.key == "sort.Slice" && g.sortSlice(cc, st, r) {
		return
	}
	if ci.key == "sort.Search" && g.sortSearch(v, cc, st, r, ins.Pos()) {
		return
	}
	if cc.IsInvoke() {
		g.safety("nil", r, "(not (= "+g.val(cc.Value).T+" nilif))", "method call on a nil interface value: "+cc.Method.Name(), ins.Pos())
	}
	res := g.applyCall(ci, st, r, ins.Pos(), nil)
	if v != nil {
		g.vals[v] = res
	}
}

func (g *Gen) resultVals(sig *types.Signature, st *State, prefix string) (Val, map[string]Val) {
	names := resultNames(sig)
	byName := map[string]Val{}
	var tup []Val
	for i := 0; i < sig.Results().Len(); i++ {
		t := sig.Results().At(i).Type()
		s := g.u.sortOf(t)
		n := g.freshConst(prefix, s)
		v := Val{T: n, Sort: s, GoT: t}
		tup = append(tup, v)
		for _, nm := range names[i] {
			byName[nm] = v
		}
	}
	switch len(tup) {
	case 0:
		return Val{}, byName
	case 1:
		return tup[0], byName
	}
	return Val{Tuple: tup}, byName
}

// applyCall applies the callee's contract (or havocs) and returns the result value.
// argOverride, if non-nil, gives pre-translated actuals (used for deferred calls).
func (g *Gen) applyCall(ci *callInfo, st *State, r string, pos token.Pos, argOverride []Val) Val {
	var actuals []Val
	type copyBack struct {
		tmp  string
		elem ssa.Value
		typ  types.Type
	}
	var copies []copyBack
	if argOverride != nil {
		actuals = argOverride
	} else {
		for _, a := range ci.args {
			av := g.val(a)
			// copy-in/copy-out for addresses of byte-array elements
			if ia, ok := a.(*ssa.IndexAddr); ok && g.addrHint(ia) == "elm" {
				et := ia.Type().Underlying().(*types.Pointer).Elem()
				tmp := g.fresh("cpin")
				g.define(tmp, "Loc", "(mkloc "+st.A+" pnil)")
				an := g.fresh("A")
				g.define(an, "Int", "(+ "+st.A+" 1)")
				st.A = an
				g.storeType(st, tmp, et, g.loadTypeH(st, av.T, et, "elm"), "cell")
				copies = append(copies, copyBack{tmp, a, et})
				av = Val{T: tmp, Sort: "Loc", GoT: av.GoT}
				g.stats.Abstractions["byte-element-address-copy-in-out"]++
			}
			actuals = append(actuals, av)
		}
	}
	defer func() {
		for _, c := range copies {
			g.storeType(st, g.val(c.elem).T, c.typ, g.loadTypeH(st, c.tmp, c.typ, "cell"), "elm")
		}
	}()
	if g.con != nil && g.con.ArgsOnly && len(g.inlining) == 0 {
		// args-only contract: the call is a havoc of everything, its contract plays no part
		g.havocAll(st)
		res, _ := g.resultVals(ci.sig, st, "ares")
		g.assumeResultFacts(res, ci.sig, st)
		return res
	}
	if ci.con == nil && g.canInline(ci) {
		return g.inlineCall(ci, actuals, st, r)
	}
	if ci.con == nil {
		g.stats.Uncontracted[ci.key]++
		// A function that claims termination may not call module code nobody has shown to terminate: a callee
		// of the module under verification that has no contract and cannot be inlined (it loops or recurses).
		// Library code stays trusted (its contracts, or the absence of effects, are assumptions listed per run).
		if g.con != nil && len(g.con.TermProps) > 0 && ci.fn != nil && !ci.dynamic && ci.fn.Pkg != nil &&
			strings.HasPrefix(ci.fn.Pkg.Pkg.Path(), "github.com/TarsCloud/TarsGo") && len(ci.fn.Blocks) > 0 {
			var tags []string
			for t := range g.con.TermProps {
				tags = append(tags, t)
			}
			sort.Strings(tags)
			g.oblige(g.oblName("call:"+shortKey(ci.key)+"#terminates"), "termination", tags, r, "false",
				"the callee has no contract and cannot be inlined (it loops or calls itself): nothing shows that it terminates", pos)
		}
		g.havocAll(st)
		res, _ := g.resultVals(ci.sig, st, "ures")
		g.assumeResultFacts(res, ci.sig, st)
		return res
	}
	c := ci.con
	if c.Trusted {
		g.stats.TrustedUsed[ci.key] = true
	}
	vars := map[string]Val{}
	for i, n := range ci.formals {
		if i < len(actuals) {
			vars[n] = actuals[i]
		}
	}
	pre := st.clone()
	env := g.envFor(vars, pre, pre)
	env.pkg = ci.pkg
	for _, l := range c.Lets {
		v := env.tr(l.E)
		if seqLike(v) {
			v = Val{T: env.asSeq(v), Sort: "(Seq Int)"}
		} else {
			v = env.rv(v)
		}
		n := g.fresh("clet_" + sanitize(l.Name))
		g.define(n, v.Sort, v.T)
		vars[l.Name] = Val{T: n, Sort: v.Sort, GoT: v.GoT}
	}
	for i, rq := range c.Requires {
		t := g.mustClause(env, rq.E, fmt.Sprintf("call %s requires#%d", ci.key, i))
		kind := "call-requires"
		name := fmt.Sprintf("%s/call:%s#requires%d", shortKey(g.key), callShort(ci.key), i)
		g.counters[name]++
		if g.counters[name] > 1 {
			name = fmt.Sprintf("%s@%d", name, g.counters[name]-1)
		}
		g.oblige(name, kind, append([]string{"SAFETY"}, rq.Tags...), r, t, "precondition of "+ci.key+": "+rq.Src, pos)
	}
	// termination of (mutual) recursion
	if len(c.Decreases) > 0 && len(g.con.Decreases) > 0 {
		var callee, caller []string
		for _, d := range c.Decreases {
			callee = append(callee, env.trInt(d))
		}
		oenv := g.envFor(g.penv, g.old, g.old)
		for _, d := range g.con.Decreases {
			caller = append(caller, oenv.trInt(d))
		}
		for len(callee) < len(caller) {
			callee = append(callee, "0")
		}
		for len(caller) < len(callee) {
			caller = append(caller, "0")
		}
		name := fmt.Sprintf("%s/decreases@%s", shortKey(g.key), callShort(ci.key))
		g.counters[name]++
		if g.counters[name] > 1 {
			name = fmt.Sprintf("%s@%d", name, g.counters[name]-1)
		}
		g.oblige(name, "decreases", []string{"TERM"}, r, lexLess(callee, caller), "recursive call decreases the measure", pos)
	}
	// havoc the modifies footprint
	if c.NoFrame {
		// the contract gives no frame: the caller keeps nothing about the pre-existing heap
		g.havocAll(st)
	}
	if !c.Pure {
		for _, m := range c.Modifies {
			v := env.tr(m)
			if !v.isLv() {
				panic(fmt.Errorf("modifies item %s of %s is not an lvalue", m, ci.key))
			}
			switch {
			case v.MapCells:
				dk, vk, lk := g.mapHeapKinds(v.GoT.Underlying().(*types.Map))
				for _, k := range []string{dk, vk, lk} {
					fv := g.freshConst("hvm", g.u.kindSort[k])
					g.setHeap(st, k, "(store "+g.heap(st, k)+" "+v.Addr+" "+fv+")")
					if k == lk {
						g.assume("(>= " + fv + " 0)")
					}
				}
			case v.Root:
				// every cell under the root object of the array may change
				g.cellKinds(v.GoT, func(k string) {
					hold := g.heap(st, k)
					hn := g.fresh("Hr_" + k)
					g.declare(hn, g.u.heapSort(k))
					st.H[k] = hn
					cond := "(not " + g.rootChanged(v.Addr, v.GoT, k, "l") + ")"
					g.assume("(forall ((l Loc)) (! (=> " + cond + " (= (select " + hn + " l) (select " + hold + " l))) :pattern ((select " + hn + " l))))")
					g.frames = append(g.frames, havocFrame{kind: k, hn: hn, hpre: hold, conds: cond})
				})
			case v.Win != nil:
				fs := g.freshConst("hvw", "(Seq Int)")
				g.assume("(= (seq.len " + fs + ") " + v.Win.n + ")")
				hb := g.heap(st, "bytes")
				g.setHeap(st, "bytes", "(store "+hb+" "+v.Win.arr+" (splice (select "+hb+" "+v.Win.arr+") "+v.Win.off+" "+fs+"))")
			case v.GKind != "":
				fv := g.freshConst("hv", g.u.kindSort[v.GKind])
				g.setHeap(st, v.GKind, "(store "+g.heap(st, v.GKind)+" "+v.Addr+" "+fv+")")
			default:
				g.havocCells(st, v.GoT, v.Addr)
			}
		}
		for _, me := range c.ModEach {
			// quantified havoc: every cell lv(l) with pred(l) may change, everything else of that kind is kept
			n := env.child()
			n.vars[me.Var] = Val{T: "l", Sort: "Loc"}
			pred := n.trBool(me.Pred)
			lv := n.tr(me.LV)
			if !lv.isLv() || lv.Addr != "l" {
				panic(fmt.Errorf("'each' modifies item of %s must have the form cell_T(%s)", ci.key, me.Var))
			}
			k := lv.GKind
			if k == "" {
				k = g.scalarKind(lv.GoT)
			}
			hold := g.heap(st, k)
			hn := g.fresh("He_" + k)
			g.declare(hn, g.u.heapSort(k))
			st.H[k] = hn
			g.assume("(forall ((l Loc)) (! (=> (not " + pred + ") (= (select " + hn + " l) (select " + hold + " l))) :pattern ((select " + hn + " l))))")
			g.frames = append(g.frames, havocFrame{kind: k, hn: hn, hpre: hold, conds: "(not " + pred + ")"})
		}
		if c.Allocates {
			an := g.fresh("A")
			g.declare(an, "Int")
			g.assume("(>= " + an + " " + st.A + ")")
			st.A = an
		}
	}
	res, byName := g.resultVals(ci.sig, st, "res")
	if len(c.Results) > 0 {
		var tup []Val
		if res.Tuple != nil {
			tup = res.Tuple
		} else if ci.sig.Results().Len() == 1 {
			tup = []Val{res}
		}
		for i, n := range c.Results {
			if i < len(tup) {
				byName[n] = tup[i]
			}
		}
	}
	for k, v := range byName {
		vars[k] = v
	}
	post := g.envFor(vars, st, pre)
	post.pkg = ci.pkg
	g.assumeResultFacts(res, ci.sig, st)
	for i, en := range c.Ensures {
		// A check of property P may rely only on callee clauses that are themselves checked
		// under P (clauses tagged P, or untagged ones): otherwise a change that breaks a clause
		// checked only under another property would silently invalidate this proof.
		if g.onlyProp != "" && len(en.Tags) > 0 && !propMatch(en.Tags, g.onlyProp) {
			continue
		}
		t := g.mustClause(post, en.E, fmt.Sprintf("call %s ensures#%d", ci.key, i))
		if en.Unproved {
			g.stats.TrustedUsed["UNPROVED clause of "+shortKey(ci.key)+": "+en.Src] = true
		}
		g.guardAssume(r, t)
	}
	return res
}

func (g *Gen) assumeResultFacts(res Val, sig *types.Signature, st *State) {
	n := sig.Results().Len()
	switch {
	case n == 1:
		g.assume(g.typeFacts(st, res.T, sig.Results().At(0).Type()))
	case n > 1:
		for i, v := range res.Tuple {
			g.assume(g.typeFacts(st, v.T, sig.Results().At(i).Type()))
		}
	}
}

func (g *Gen) havocCells(st *State, t types.Type, loc string) {
	switch tt := t.Underlying().(type) {
	case *types.Struct:
		for i := 0; i < tt.NumFields(); i++ {
			g.havocCells(st, tt.Field(i).Type(), fmt.Sprintf("(fld %s %d)", loc, g.u.fieldID(t, i)))
		}
		return
	case *types.Array:
		if !isByteLike(tt.Elem()) {
			if tt.Len() <= 8 {
				for i := int64(0); i < tt.Len(); i++ {
					g.havocCells(st, tt.Elem(), fmt.Sprintf("(elm %s %d)", loc, i))
				}
				return
			}
			unsup("havoc of large array")
		}
	}
	s := g.u.sortOf(t)
	fv := g.freshConst("hv", s)
	g.storeType(st, loc, t, fv, "")
	g.assume(g.typeFacts(st, fv, t))
}

func callShort(key string) string {
	k := shortKey(key)
	if i := strings.LastIndex(k, "/"); i >= 0 {
		k = k[i+1:]
	}
	return k
}

func (g *Gen) runDefers(st *State, r string) {
	for i := len(g.defers) - 1; i >= 0; i-- {
		d := g.defers[i]
		guard := "(and " + r + " " + g.deferR[d] + ")"
		cc := d.Common()
		if b, ok := cc.Value.(*ssa.Builtin); ok {
			_ = b
			g.stats.Abstractions["deferred-builtin"]++
			continue
		}
		ci := g.resolveCall(cc)
		alt := st.clone()
		g.applyCall(ci, alt, guard, d.Pos(), nil)
		merged := g.mergeStates([]string{g.deferR[d], "true"}, []*State{alt, st})
		st.H, st.A = merged.H, merged.A
	}
}

func (g *Gen) builtin(v ssa.Value, name string, cc *ssa.CallCommon, st *State, r string, ins ssa.CallInstruction) {
	switch name {
	case "len":
		a := g.val(cc.Args[0])
		switch tt := cc.Args[0].Type().Underlying().(type) {
		case *types.Basic:
			g.defVal(v, "(seq.len "+a.T+")")
		case *types.Slice:
			g.defVal(v, "(s_len "+a.T+")")
		case *types.Map:
			_, _, lk := g.mapHeapKinds(tt)
			x := g.defVal(v, "(ite (= "+a.T+" nilloc) 0 (select "+g.heap(st, lk)+" "+a.T+"))")
			g.assume("(>= " + x.T + " 0)")
		case *types.Array:
			g.defVal(v, fmt.Sprint(tt.Len()))
		case *types.Pointer:
			g.defVal(v, fmt.Sprint(tt.Elem().Underlying().(*types.Array).Len()))
		case *types.Chan:
			x := g.freshVal(v, st, r)
			g.assume("(>= " + x.T + " 0)")
		default:
			unsup("len of %s", cc.Args[0].Type())
		}
	case "cap":
		a := g.val(cc.Args[0])
		switch cc.Args[0].Type().Underlying().(type) {
		case *types.Slice:
			g.defVal(v, "(s_cap "+a.T+")")
		default:
			x := g.freshVal(v, st, r)
			g.assume("(>= " + x.T + " 0)")
		}
	case "append":
		g.appendBuiltin(v, cc, st, r)
	case "copy":
		g.copyBuiltin(v, cc, st, r)
	case "delete":
		m := cc.Args[0].Type().Underlying().(*types.Map)
		mv, k := g.val(cc.Args[0]).T, g.val(cc.Args[1]).T
		dk, _, lk := g.mapHeapKinds(m)
		had := "(and (not (= " + mv + " nilloc)) (select (select " + g.heap(st, dk) + " " + mv + ") " + k + "))"
		hn := g.fresh("had")
		g.define(hn, "Bool", had)
		g.setHeap(st, lk, "(ite "+hn+" (store "+g.heap(st, lk)+" "+mv+" (- (select "+g.heap(st, lk)+" "+mv+") 1)) "+g.heap(st, lk)+")")
		g.setHeap(st, dk, "(ite "+hn+" (store "+g.heap(st, dk)+" "+mv+" (store (select "+g.heap(st, dk)+" "+mv+") "+k+" false)) "+g.heap(st, dk)+")")
	case "print", "println":
	case "recover":
		g.vals[v] = Val{T: "nilif", Sort: "Iface", GoT: v.Type()}
		g.stats.Abstractions["recover"]++
	case "close":
		g.stats.Abstractions["chan-close"]++
	case "min", "max":
		fn := "imin"
		if name == "max" {
			fn = "imax"
		}
		t := g.val(cc.Args[0]).T
		for _, a := range cc.Args[1:] {
			t = "(" + fn + " " + t + " " + g.val(a).T + ")"
		}
		g.defVal(v, t)
	case "ssa:wrapnilchk":
		g.nilCheck(cc.Args[0], r, "method value on nil", ins.Pos())
		g.defVal(v, g.val(cc.Args[0]).T)
	default:
		unsup("builtin %s", name)
	}
}

func (g *Gen) appendBuiltin(v ssa.Value, cc *ssa.CallCommon, st *State, r string) {
	s := g.val(cc.Args[0])
	if isByteSlice(cc.Args[0].Type()) {
		var tail string
		if isString(cc.Args[1].Type()) {
			tail = g.val(cc.Args[1]).T
		} else {
			tail = "(bytesOf " + g.heap(st, "bytes") + " " + g.val(cc.Args[1]).T + ")"
		}
		tn := g.fresh("apt")
		g.define(tn, "(Seq Int)", tail)
		newLen := "(+ (s_len " + s.T + ") (seq.len " + tn + "))"
		fits := g.fresh("fits")
		g.define(fits, "Bool", "(<= "+newLen+" (s_cap "+s.T+"))")
		// in place
		hb := g.heap(st, "bytes")
		inplace := "(store " + hb + " (s_arr " + s.T + ") (splice (select " + hb + " (s_arr " + s.T + ")) (+ (s_off " + s.T + ") (s_len " + s.T + ")) " + tn + "))"
		// reallocation
		arr := "(mkloc " + st.A + " pnil)"
		g.ghostZero(st, st.A)
		ncap := g.freshConst("ncap", "Int")
		g.assume("(>= " + ncap + " " + newLen + ")")
		pad := g.freshConst("pad", "(Seq Int)")
		g.assume("(= (seq.len " + pad + ") (- " + ncap + " " + newLen + "))")
		realloc := "(store " + hb + " " + arr + " (seq.++ (bytesOf " + hb + " " + s.T + ") " + tn + " " + pad + "))"
		g.setHeap(st, "bytes", "(ite "+fits+" "+inplace+" "+realloc+")")
		an := g.fresh("A")
		g.define(an, "Int", "(ite "+fits+" "+st.A+" (+ "+st.A+" 1))")
		rv := g.defVal(v, "(ite "+fits+" (mkslice (s_arr "+s.T+") (s_off "+s.T+") "+newLen+" (s_cap "+s.T+")) (mkslice "+arr+" 0 "+newLen+" "+ncap+"))")
		st.A = an
		// derived fact (follows from the two cases above and validbytes of the operand):
		// the content of the result is the old content followed by the appended bytes
		g.assume("(= (bytesOf " + g.heap(st, "bytes") + " " + rv.T + ") (seq.++ (bytesOf " + hb + " " + s.T + ") " + tn + "))")
		g.assume("(validbytes " + g.heap(st, "bytes") + " " + rv.T + ")")
		return
	}
	// General element type.  Lengths and identity of the result are exact; element cells are
	// characterised pointwise: cells of the result below len(s) keep the values of s, cells from
	// len(s) on hold the appended values, and no cell outside the result's array (when it is a
	// reallocation) or outside the appended range (in place) changes.
	el := cc.Args[0].Type().Underlying().(*types.Slice).Elem()
	t := g.val(cc.Args[1])
	newLen := "(+ (s_len " + s.T + ") (s_len " + t.T + "))"
	fits := g.fresh("fits")
	g.define(fits, "Bool", "(<= "+newLen+" (s_cap "+s.T+"))")
	arr := "(mkloc " + st.A + " pnil)"
	g.ghostZero(st, st.A)
	ncap := g.freshConst("ncap", "Int")
	g.assume("(and (>= " + ncap + " " + newLen + ") (<= " + ncap + " 9223372036854775807))")
	// the result is a declared constant (not a macro) so that it can occur in quantifier patterns
	// the allocation counter is advanced first: the well-typedness facts of the result (its array is an
	// allocated object) must be stated against the counter that includes a reallocated array
	an := g.fresh("A")
	g.define(an, "Int", "(ite "+fits+" "+st.A+" (+ "+st.A+" 1))")
	st.A = an
	res := g.freshVal(v, st, r)
	g.assume("(= " + res.T + " (ite " + fits + " (mkslice (s_arr " + s.T + ") (s_off " + s.T + ") " + newLen + " (s_cap " + s.T + ")) (mkslice " + arr + " 0 " + newLen + " " + ncap + ")))")
	lenS := "(s_len " + s.T + ")"
	g.instShifts = append(g.instShifts, lenS)
	// group the scalar cells of an element by heap kind (one new heap version per kind)
	type cellInfo struct {
		path func(string) string
		proj string
	}
	byKind := map[string][]cellInfo{}
	var kindOrder []string
	g.flatCellsT(el, func(path func(base string) string, k string, ct types.Type) {
		if _, ok := byKind[k]; !ok {
			kindOrder = append(kindOrder, k)
		}
		byKind[k] = append(byKind[k], cellInfo{path, elemPathOf(path)})
	})
	for _, k := range kindOrder {
		hold := g.heap(st, k)
		hn := g.fresh("Hap_" + k)
		g.declare(hn, g.u.heapSort(k))
		st.H[k] = hn
		// in place: only cells of the array of s change; reallocation: only cells of the new array
		outside := "(ite " + fits + " (not (= (l_obj l) (l_obj (s_arr " + s.T + ")))) (not (= (l_obj l) (l_obj " + arr + "))))"
		g.assume("(forall ((l Loc)) (! (=> " + outside + " (= (select " + hn + " l) (select " + hold + " l))) :pattern ((select " + hn + " l))))")
		g.frames = append(g.frames, havocFrame{kind: k, hn: hn, hpre: hold, conds: outside})
		projs := map[string]bool{}
		lastIDs := map[string][]string{} // projection -> field ids of the written cells (struct elements)
		for _, c := range byKind[k] {
			if m := lastFldID.FindStringSubmatch(c.path("@")); m != nil {
				lastIDs[c.proj] = append(lastIDs[c.proj], m[1])
			}
			cell := func(sl, idx string) string { return c.path("(elm (s_arr " + sl + ") (+ (s_off " + sl + ") " + idx + "))") }
			g.assume("(forall ((j Int)) (! (=> (and (<= 0 j) (< j " + lenS + ")) (= (select " + hn + " " + cell(res.T, "j") + ") (select " + hold + " " + cell(s.T, "j") + "))) :pattern ((select " + hn + " " + cell(res.T, "j") + "))))")
			g.assume("(forall ((j Int)) (! (=> (and (<= 0 j) (< j (s_len " + t.T + "))) (= (select " + hn + " " + cell(res.T, "(+ "+lenS+" j)") + ") (select " + hold + " " + cell(t.T, "j") + "))) :pattern ((select " + hold + " " + cell(t.T, "j") + "))))")
			projs[c.proj] = true
		}
		// in place: cells of the array of s outside the appended index range are unchanged
		var inRange []string
		for pr := range projs {
			// a written cell is <field path>(elm(array, j)) with j in the appended range; for struct elements the
			// last field id of the location must be one of the element's field ids of this kind (field ids are
			// unique per struct type, so a field of any other type is untouched wherever it lives)
			idc := ""
			if ids := lastIDs[pr]; len(ids) > 0 && pr != "pathid" {
				var alts []string
				for _, id := range ids {
					alts = append(alts, "(= (pth_f (l_path l)) "+id+")")
				}
				sort.Strings(alts)
				idc = " ((_ is pfld) (l_path l)) " + orTerms(alts)
			}
			inRange = append(inRange, "(and ((_ is pelm) ("+pr+" (l_path l))) (<= (+ (s_off "+s.T+") "+lenS+") (pth_i ("+pr+" (l_path l)))) (< (pth_i ("+pr+" (l_path l))) (+ (s_off "+s.T+") "+newLen+"))"+idc+")")
		}
		sort.Strings(inRange)
		g.assume("(=> " + fits + " (forall ((l Loc)) (! (=> (and (= (l_obj l) (l_obj (s_arr " + s.T + "))) (not " + orTerms(inRange) + ")) (= (select " + hn + " l) (select " + hold + " l))) :pattern ((select " + hn + " l)))))")
	}
	g.assume("(validslice " + res.T + ")")
}

// rootChanged: the location loc may be changed by a "modifies elems(x)" whose array is at addr and whose
// elements have type el: it lies in that array object AND it is a cell of kind k of some element, i.e. its
// path is <field path of an element cell of kind k>(pelm ...). Field ids are unique per struct type, so a field
// of any other type that happens to live in the same object (in the untyped memory model) is not affected.
func (g *Gen) rootChanged(addr string, el types.Type, k string, loc string) string {
	same := "(= (l_obj " + loc + ") (l_obj " + addr + "))"
	if el == nil {
		return same
	}
	if g.rootTypes == nil {
		g.rootTypes = map[string]types.Type{}
	}
	g.rootTypes[addr] = el
	var alts []string
	ok := true
	func() {
		defer func() {
			if recover() != nil {
				ok = false
			}
		}()
		g.flatCellsT(el, func(path func(base string) string, ck string, ct types.Type) {
			if ck != k {
				return
			}
			pr := elemPathOf(path)
			c := "((_ is pelm) (" + pr + " (l_path " + loc + ")))"
			if m := lastFldID.FindStringSubmatch(path("@")); m != nil && pr != "pathid" {
				c = "(and ((_ is pfld) (l_path " + loc + ")) (= (pth_f (l_path " + loc + ")) " + m[1] + ") " + c + ")"
			}
			alts = append(alts, c)
		})
	}()
	if !ok || len(alts) == 0 {
		return same
	}
	sort.Strings(alts)
	return "(and " + same + " " + orTerms(alts) + ")"
}

// flatCellsT enumerates the scalar cells of a type; path maps a base location to the cell location.
func (g *Gen) flatCellsT(t types.Type, f func(path func(base string) string, kind string, ct types.Type)) {
	var rec func(t types.Type, path func(string) string)
	rec = func(t types.Type, path func(string) string) {
		switch tt := t.Underlying().(type) {
		case *types.Struct:
			for i := 0; i < tt.NumFields(); i++ {
				id := g.u.fieldID(t, i)
				p := path
				rec(tt.Field(i).Type(), func(b string) string { return fmt.Sprintf("(fld %s %d)", p(b), id) })
			}
		default:
			f(path, g.scalarKind(t), t)
		}
	}
	rec(t, func(b string) string { return b })
}

func (g *Gen) copyBuiltin(v ssa.Value, cc *ssa.CallCommon, st *State, r string) {
	d := g.val(cc.Args[0])
	if !isByteSlice(cc.Args[0].Type()) {
		unsup("copy on non-byte slices")
	}
	var src string
	if isString(cc.Args[1].Type()) {
		src = g.val(cc.Args[1]).T
	} else {
		src = "(bytesOf " + g.heap(st, "bytes") + " " + g.val(cc.Args[1]).T + ")"
	}
	sn := g.fresh("cps")
	g.define(sn, "(Seq Int)", src)
	m := g.fresh("cpn")
	g.define(m, "Int", "(imin (s_len "+d.T+") (seq.len "+sn+"))")
	hb := g.heap(st, "bytes")
	g.setHeap(st, "bytes", "(store "+hb+" (s_arr "+d.T+") (splice (select "+hb+" (s_arr "+d.T+")) (s_off "+d.T+") (seq.extract "+sn+" 0 "+m+")))")
	// derived fact: new content of dst = copied prefix followed by the untouched rest
	g.assume("(= (bytesOf " + g.heap(st, "bytes") + " " + d.T + ") (seq.++ (seq.extract " + sn + " 0 " + m + ") (seq.extract (bytesOf " + hb + " " + d.T + ") " + m + " (- (s_len " + d.T + ") " + m + "))))")
	if v != nil {
		g.defVal(v, m)
	}
}

// canInline: a same-module callee without contract, with a body, without loops, defers or
// recursion, small enough. Inlining keeps "extract helper" refactorings from raising alarms
// and lets the caller's obligations see through helpers.
func (g *Gen) canInline(ci *callInfo) bool {
	fn := ci.fn
	if fn == nil || len(fn.Blocks) == 0 || ci.dynamic {
		return false
	}
	if fn.Pkg == nil || !strings.HasPrefix(fn.Pkg.Pkg.Path(), "github.com/TarsCloud/TarsGo") {
		return false
	}
	if len(g.inlining) >= 3 {
		return false
	}
	for _, k := range g.inlining {
		if k == ci.key {
			return false
		}
	}
	if ci.key == g.key {
		return false
	}
	n := 0
	for _, b := range fn.Blocks {
		for _, s := range b.Succs {
			if s.Dominates(b) {
				return false // loop
			}
		}
		for _, ins := range b.Instrs {
			switch ins.(type) {
			case *ssa.DebugRef:
				continue
			case *ssa.Defer, *ssa.Go, *ssa.Select, *ssa.RunDefers:
				return false
			}
			n++
		}
	}
	return n <= 200 && fn.Recover == nil
}

func (g *Gen) inlineCall(ci *callInfo, actuals []Val, st *State, r string) Val {
	fn := ci.fn
	g.stats.Abstractions["inlined:"+shortKey(ci.key)]++
	// save caller context
	sFn, sPfx, sEntry, sRets, sLoops, sInLoop, sCur := g.fn, g.pfx, g.entryR, g.rets, g.loops, g.inLoop, g.curBlock
	g.ninline++
	g.fn, g.pfx, g.entryR, g.rets = fn, fmt.Sprintf("in%d_", g.ninline), r, nil
	g.loops, g.inLoop = map[*ssa.BasicBlock]*loopInfo{}, map[*ssa.BasicBlock][]*loopInfo{}
	g.inlining = append(g.inlining, ci.key)
	for i, p := range fn.Params {
		if i < len(actuals) {
			g.vals[p] = actuals[i]
		}
	}
	for i, fv := range fn.FreeVars {
		idx := len(fn.Params) + i
		if idx < len(actuals) {
			g.vals[fv] = actuals[idx]
		}
	}
	entry := st.clone()
	for _, b := range rpo(fn, isBackEdge) {
		g.block(b, entry)
	}
	rets := g.rets
	// restore
	g.fn, g.pfx, g.entryR, g.rets, g.loops, g.inLoop, g.curBlock = sFn, sPfx, sEntry, sRets, sLoops, sInLoop, sCur
	g.inlining = g.inlining[:len(g.inlining)-1]
	if len(rets) == 0 {
		// the callee never returns normally (always panics): the rest is unreachable
		g.assume("(not " + r + ")")
		res, _ := g.resultVals(ci.sig, st, "nores")
		return res
	}
	var edges []string
	var sts []*State
	for _, rt := range rets {
		edges = append(edges, rt.r)
		sts = append(sts, rt.st)
	}
	m := g.mergeStates(edges, sts)
	st.H, st.A = m.H, m.A
	// a return is reached whenever the call is reached (panics are separate obligations)
	g.assume("(=> " + r + " " + orTerms(edges) + ")")
	n := ci.sig.Results().Len()
	var tup []Val
	for i := 0; i < n; i++ {
		t := rets[len(rets)-1].results[i].T
		for j := len(rets) - 2; j >= 0; j-- {
			t = "(ite " + rets[j].r + " " + rets[j].results[i].T + " " + t + ")"
		}
		rt := ci.sig.Results().At(i).Type()
		nm := g.fresh("inres")
		g.define(nm, g.u.sortOf(rt), t)
		tup = append(tup, Val{T: nm, Sort: g.u.sortOf(rt), GoT: rt})
	}
	switch n {
	case 0:
		return Val{}
	case 1:
		return tup[0]
	}
	return Val{Tuple: tup}
}

// elemPathOf returns the name of a path projection that strips the field selectors a cell path
// adds on top of its element location (identity for scalar elements).
var lastFldID = regexp.MustCompile(` (-?[0-9]+)\)$`)

func elemPathOf(path func(string) string) string {
	// count the nesting by applying path to a marker
	p := path("@")
	n := strings.Count(p, "(fld ")
	if n > 3 {
		unsup("append of deeply nested struct elements")
	}
	if n == 0 {
		return "pathid"
	}
	return fmt.Sprintf("pbase%d", n)
}

// sortSearch models sort.Search(n, f) for a closure f under a pure contract: the result r is in [0, n],
// f(r) holds if r < n and f(r-1) does not hold if r > 0. This is the invariant of the binary search
// (f(-1) = false, f(n) = true by convention) and holds for every predicate, monotone or not; with a monotone
// predicate r is the smallest index at which f holds. The two evaluations of f are applications of the
// closure's contract to the symbolic result.
func (g *Gen) sortSearch(v ssa.Value, cc *ssa.CallCommon, st *State, r string, pos token.Pos) bool {
	mc, ok := cc.Args[1].(*ssa.MakeClosure)
	if !ok {
		return false
	}
	fn, ok := mc.Fn.(*ssa.Function)
	if !ok || len(fn.Params) != 1 {
		return false
	}
	con, ok := g.prog.specs.Contracts[fnKey(fn)]
	if !ok || !con.Pure {
		return false
	}
	n := g.val(cc.Args[0]).T
	res := g.freshConst("search", "Int")
	g.guardAssume(r, "(and (<= 0 "+res+") (<= "+res+" "+n+"))")
	ci := &callInfo{fn: fn, key: fnKey(fn), sig: fn.Signature, con: con}
	for _, p := range fn.Params {
		ci.formals = append(ci.formals, p.Name())
	}
	var binds []Val
	for i, fv := range fn.FreeVars {
		ci.formals = append(ci.formals, fv.Name())
		binds = append(binds, g.val(mc.Bindings[i]))
	}
	if len(con.Formals) > 0 {
		ci.formals = con.Formals
	}
	if fn.Pkg != nil {
		ci.pkg = fn.Pkg.Pkg
	}
	intT := fn.Params[0].Type()
	g1 := g.fresh("sg")
	g.define(g1, "Bool", "(and "+r+" (< "+res+" "+n+"))")
	v1 := g.applyCall(ci, st, g1, pos, append([]Val{{T: res, Sort: "Int", GoT: intT}}, binds...))
	g.guardAssume(g1, v1.T)
	g2 := g.fresh("sg")
	g.define(g2, "Bool", "(and "+r+" (> "+res+" 0))")
	v2 := g.applyCall(ci, st, g2, pos, append([]Val{{T: "(- " + res + " 1)", Sort: "Int", GoT: intT}}, binds...))
	g.guardAssume(g2, "(not "+v2.T+")")
	if v != nil {
		g.vals[v] = Val{T: res, Sort: "Int", GoT: v.Type()}
	}
	g.stats.Abstractions["sort.Search-by-closure-contract"]++
	return true
}

// sortSlice models sort.Slice(x, less) on a slice value boxed at the call site: afterwards the
// element cells are a permutation of the old ones (perm is an uninterpreted index map into the
// old slice); nothing else changes. The ordering established by less is not modelled.
func (g *Gen) sortSlice(cc *ssa.CallCommon, st *State, r string) bool {
	mi, ok := cc.Args[0].(*ssa.MakeInterface)
	if !ok {
		return false
	}
	slt, ok := mi.X.Type().Underlying().(*types.Slice)
	if !ok || isByteLike(slt.Elem()) {
		return false
	}
	sv := g.val(mi.X).T
	g.stats.TrustedUsed["sort.Slice (permutation of the elements; order not modelled)"] = true
	perm := g.fresh("perm")
	g.decls = append(g.decls, "(declare-fun "+perm+" (Int) Int)")
	g.instPerms = append(g.instPerms, perm)
	g.assume("(forall ((j Int)) (! (=> (and (<= 0 j) (< j (s_len " + sv + "))) (and (<= 0 (" + perm + " j)) (< (" + perm + " j) (s_len " + sv + ")))) :pattern ((" + perm + " j))))")
	byKind := map[string][]func(string) string{}
	var order []string
	g.flatCellsT(slt.Elem(), func(path func(base string) string, k string, ct types.Type) {
		if _, ok := byKind[k]; !ok {
			order = append(order, k)
		}
		byKind[k] = append(byKind[k], path)
	})
	for _, k := range order {
		hold := g.heap(st, k)
		hn := g.fresh("Hsort_" + k)
		g.declare(hn, g.u.heapSort(k))
		st.H[k] = hn
		// sorting permutes element cells only: any other cell, also one living in the same object, is unchanged
		outside := "(not " + g.rootChanged("(s_arr "+sv+")", slt.Elem(), k, "l") + ")"
		g.assume("(forall ((l Loc)) (! (=> " + outside + " (= (select " + hn + " l) (select " + hold + " l))) :pattern ((select " + hn + " l))))")
		g.frames = append(g.frames, havocFrame{kind: k, hn: hn, hpre: hold, conds: outside})
		for _, path := range byKind[k] {
			cell := func(idx string) string { return path("(elm (s_arr " + sv + ") (+ (s_off " + sv + ") " + idx + "))") }
			g.assume("(forall ((j Int)) (! (=> (and (<= 0 j) (< j (s_len " + sv + "))) (= (select " + hn + " " + cell("j") + ") (select " + hold + " " + cell("("+perm+" j)") + "))) :pattern ((select " + hn + " " + cell("j") + "))))")
		}
	}
	return true
}
