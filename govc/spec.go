package main

// Spec files (.gvs) and contract blocks.
//
// .gvs syntax (line oriented; a line starting with white space continues the
// previous one; '#' starts a comment line):
//
//   const NAME = <int expr>
//   ghost <pkg>.<Type>.<field> : <type>
//   fun name(a: T, b: T): T = <expr>
//   rec name(a: T, ...): T decreases <expr> = <expr>      (recursive, limited-function encoding)
//   uninterp name(a: T, ...): T
//   axiom name :: <expr>
//   lemma name [tags] :: <expr>
//   contract <full function key>  ...clauses on continuation lines...
//
// Contract clauses (also used in //@ blocks inside /repo):
//   requires <expr> | ensures [tags] <expr> | modifies <lvalue>, ... | allocates
//   pure | trusted | decreases <expr>, ... | loop <k> invariant [tags] <expr>
//   loop <k> decreases <expr> | maypanic | let name = <expr>

import (
	"fmt"
	"os"
	"regexp"
	"sort"
	"strconv"
	"strings"
)

type SpecFun struct {
	Name    string
	Params  []Param
	Ret     string
	Body    *Expr
	Rec     bool
	Uninter bool
	Decr    *Expr
	Where   string
	CexBody *Expr // concrete definition of an uninterpreted function, used only when searching/evaluating counterexamples
}

type Clause struct {
	Unproved bool // ensures clause that callers assume but that is not discharged (reported as an assumption)
	Kind string // requires ensures invariant decreases
	Tags []string
	E    *Expr
	Src  string
	Loop int
}

type Contract struct {
	Key       string
	Formals   []string
	Results   []string
	Requires  []*Clause
	Ensures   []*Clause
	Modifies  []*Expr
	Allocates bool
	Pure      bool
	Trusted   bool
	MayPanic  bool
	Decreases []*Expr
	LoopInv   map[int][]*Clause
	LoopDecr  map[int][]*Expr
	LoopMod   map[int][]*Expr
	Sites     []*SiteClause
	ClosedHeap bool
	ArgsOnly   bool
	SiteCount map[string]int // sites <match> = N: the function has exactly N instructions the match selects
	ModEach   []*ModEach
	Lets      []struct {
		Name string
		E    *Expr
	}
	Witness []struct {
		Name string
		E    *Expr
	}
	Replay string
	Where  string
	Opaque []string
	PerReturn bool
	NoFrame   bool
	TermProps map[string]bool
	LoopNoFrame map[int]bool
	ExitGhost []*SiteClause
	Props map[string]bool // property tags mentioned
	SafetyProps map[string]bool // properties owning the implicit safety/termination obligations
}

// ModEach is a quantified modifies item: each <var> : <pred> : <lvalue>
type ModEach struct {
	Var  string
	Pred *Expr
	LV   *Expr
}

// SiteClause attaches a ghost update or an assertion to a call/go/defer site.
type SiteClause struct {
	Match string
	Ord   int
	Kind  string // assert | ghost
	Tags  []string
	LHS   *Expr
	E     *Expr
	Src   string
}

type Lemma struct {
	Name  string
	Tags  []string
	E     *Expr
	Where string
	Induct string
	Index  int
}

type Ghost struct {
	Owner string // pkg.Type
	Field string
	Type  string
	ID    int
}

type Specs struct {
	Consts    map[string]*Expr
	Funs      map[string]*SpecFun
	FunOrder  []string
	Axioms    []*Lemma
	IndLemmas []*Lemma
	Lemmas    []*Lemma
	Ghosts    map[string]*Ghost // key owner.field
	Contracts map[string]*Contract
	Preds     map[string]*Pred
	GlobalFacts map[string]*Expr // assumed about the value of a library global at every load (identifier: value)
}

type Pred struct {
	Name   string
	Params []string
	Body   *Expr
}

func NewSpecs() *Specs {
	return &Specs{Consts: map[string]*Expr{}, Funs: map[string]*SpecFun{}, Ghosts: map[string]*Ghost{}, Contracts: map[string]*Contract{}, Preds: map[string]*Pred{}, GlobalFacts: map[string]*Expr{}}
}

var tagRe = regexp.MustCompile(`^\[([A-Za-z0-9_, ]+)\]\s*`)

func parseTags(s string) ([]string, string) {
	m := tagRe.FindStringSubmatch(s)
	if m == nil {
		return nil, s
	}
	var tags []string
	for _, t := range strings.Split(m[1], ",") {
		tags = append(tags, strings.TrimSpace(t))
	}
	return tags, s[len(m[0]):]
}

// joinLogical merges continuation lines. Each returned item is one logical line.
func joinLogical(lines []string) []string {
	var out []string
	for _, l := range lines {
		t := strings.TrimRight(l, " \t\r")
		if strings.TrimSpace(t) == "" || strings.HasPrefix(strings.TrimSpace(t), "#") {
			continue
		}
		if (t[0] == ' ' || t[0] == '\t') && len(out) > 0 {
			out[len(out)-1] += "\n" + strings.TrimSpace(t)
		} else {
			out = append(out, t)
		}
	}
	return out
}

func parseParams(s, where string) ([]Param, error) {
	var ps []Param
	s = strings.TrimSpace(s)
	if s == "" {
		return nil, nil
	}
	for _, p := range strings.Split(s, ",") {
		kv := strings.SplitN(p, ":", 2)
		if len(kv) != 2 {
			return nil, fmt.Errorf("%s: bad parameter %q", where, p)
		}
		ps = append(ps, Param{Name: strings.TrimSpace(kv[0]), Type: strings.TrimSpace(kv[1])})
	}
	return ps, nil
}

var funHead = regexp.MustCompile(`^(fun|rec|uninterp)\s+([A-Za-z_][A-Za-z0-9_]*)\s*\(([^)]*)\)\s*:\s*([A-Za-z0-9_]+)\s*`)

func (sp *Specs) LoadFile(path string) error {
	data, err := os.ReadFile(path)
	if err != nil {
		return err
	}
	items := joinLogical(strings.Split(string(data), "\n"))
	for n, it := range items {
		where := fmt.Sprintf("%s#%d", path, n)
		flat := strings.ReplaceAll(it, "\n", " ")
		switch {
		case strings.HasPrefix(flat, "const "):
			kv := strings.SplitN(flat[6:], "=", 2)
			e, err := ParseExpr(kv[1], where)
			if err != nil {
				return err
			}
			sp.Consts[strings.TrimSpace(kv[0])] = e
		case strings.HasPrefix(flat, "ghost "):
			kv := strings.SplitN(flat[6:], ":", 2)
			full := strings.TrimSpace(kv[0])
			i := strings.LastIndex(full, ".")
			g := &Ghost{Owner: full[:i], Field: full[i+1:], Type: strings.TrimSpace(kv[1]), ID: -(len(sp.Ghosts) + 1)}
			sp.Ghosts[full] = g
		case funHead.MatchString(flat):
			m := funHead.FindStringSubmatch(flat)
			ps, err := parseParams(m[3], where)
			if err != nil {
				return err
			}
			f := &SpecFun{Name: m[2], Params: ps, Ret: m[4], Where: where, Rec: m[1] == "rec", Uninter: m[1] == "uninterp"}
			rest := strings.TrimSpace(flat[len(m[0]):])
			if f.Uninter && strings.HasPrefix(rest, ":=") {
				cb, err := ParseExpr(rest[2:], where)
				if err != nil {
					return err
				}
				f.CexBody = cb
			}
			if !f.Uninter {
				if strings.HasPrefix(rest, "decreases ") {
					i := strings.Index(rest, "=")
					// find the first '=' that is not part of ==, <=, >=, !=
					i = findDefEq(rest)
					if i < 0 {
						return fmt.Errorf("%s: missing '='", where)
					}
					d, err := ParseExpr(rest[len("decreases "):i], where)
					if err != nil {
						return err
					}
					f.Decr = d
					rest = rest[i:]
				}
				if !strings.HasPrefix(rest, "=") {
					return fmt.Errorf("%s: expected '=' in function definition: %q", where, rest)
				}
				body, err := ParseExpr(rest[1:], where)
				if err != nil {
					return err
				}
				f.Body = body
			}
			if _, dup := sp.Funs[f.Name]; dup {
				return fmt.Errorf("%s: duplicate function %s", where, f.Name)
			}
			sp.Funs[f.Name] = f
			sp.FunOrder = append(sp.FunOrder, f.Name)
		case strings.HasPrefix(flat, "axiom ") || strings.HasPrefix(flat, "lemma ") || strings.HasPrefix(flat, "indlemma "):
			isAx := strings.HasPrefix(flat, "axiom ")
			isInd := strings.HasPrefix(flat, "indlemma ")
			rest := flat[6:]
			if isInd {
				rest = flat[9:]
			}
			i := strings.Index(rest, "::")
			if i < 0 {
				return fmt.Errorf("%s: missing ::", where)
			}
			head := strings.TrimSpace(rest[:i])
			l := &Lemma{Where: where}
			hs := strings.Fields(head)
			l.Name = hs[0]
			if len(hs) > 1 {
				tg, _ := parseTags(strings.Join(hs[1:], " ") + " ")
				l.Tags = tg
			}
			e, err := ParseExpr(rest[i+2:], where)
			if err != nil {
				return err
			}
			l.E = e
			if isInd {
				l.Induct = "rec"
				l.Index = len(sp.IndLemmas)
				sp.IndLemmas = append(sp.IndLemmas, l)
				sp.Lemmas = append(sp.Lemmas, l)
			} else if isAx {
				sp.Axioms = append(sp.Axioms, l)
			} else {
				sp.Lemmas = append(sp.Lemmas, l)
			}
		case strings.HasPrefix(flat, "globalfact "):
			kv := strings.SplitN(flat[len("globalfact "):], "::", 2)
			e, err := ParseExpr(kv[1], where)
			if err != nil {
				return err
			}
			sp.GlobalFacts[strings.TrimSpace(kv[0])] = e
		case strings.HasPrefix(flat, "contract "):
			ls := strings.Split(it, "\n")
			key := strings.TrimSpace(ls[0][len("contract "):])
			c, err := parseContract(key, ls[1:], where)
			if err != nil {
				return err
			}
			c.Trusted = true
			sp.Contracts[key] = c
		default:
			return fmt.Errorf("%s: unrecognised spec item: %q", where, flat)
		}
	}
	return nil
}

func findDefEq(s string) int {
	for i := 0; i < len(s); i++ {
		if s[i] != '=' {
			continue
		}
		if i+1 < len(s) && s[i+1] == '=' {
			i++
			continue
		}
		if i > 0 && (s[i-1] == '<' || s[i-1] == '>' || s[i-1] == '!' || s[i-1] == '=') {
			continue
		}
		return i
	}
	return -1
}

func parseContract(key string, clauses []string, where string) (*Contract, error) {
	c := &Contract{Key: key, LoopInv: map[int][]*Clause{}, LoopDecr: map[int][]*Expr{}, LoopMod: map[int][]*Expr{}, Where: where, Props: map[string]bool{}, SafetyProps: map[string]bool{}}
	// clauses may themselves have been continued: a clause starts with a keyword
	kw := regexp.MustCompile(`^(requires|ensures|modifies|allocates|pure|trusted|decreases|loop|maypanic|let|safety|formals|results|witness|replay|sites|site|opaque|perreturn|closedheap|argsonly|exitghost|noframe|termination)\b`)
	var merged []string
	for _, l := range clauses {
		l = strings.TrimSpace(l)
		if l == "" {
			continue
		}
		if kw.MatchString(l) || len(merged) == 0 {
			merged = append(merged, l)
		} else {
			merged[len(merged)-1] += " " + l
		}
	}
	for i, l := range merged {
		w := fmt.Sprintf("%s:%s:clause%d", where, key, i)
		word := strings.SplitN(l, " ", 2)
		rest := ""
		if len(word) > 1 {
			rest = strings.TrimSpace(word[1])
		}
		switch word[0] {
		case "requires", "ensures":
			unproved := false
			if word[0] == "ensures" && strings.HasPrefix(rest, "unproved ") {
				unproved = true
				rest = strings.TrimSpace(rest[len("unproved "):])
			}
			tags, body := parseTags(rest)
			e, err := ParseExpr(body, w)
			if err != nil {
				return nil, err
			}
			cl := &Clause{Kind: word[0], Tags: tags, E: e, Src: body, Unproved: unproved}
			for _, t := range tags {
				c.Props[t] = true
			}
			if word[0] == "requires" {
				c.Requires = append(c.Requires, cl)
			} else {
				c.Ensures = append(c.Ensures, cl)
			}
		case "modifies":
			for _, item := range splitTop(rest) {
				if strings.HasPrefix(item, "each ") {
					parts := strings.SplitN(item[5:], ":", 3)
					if len(parts) != 3 {
						return nil, fmt.Errorf("%s: bad 'each' modifies item %q", w, item)
					}
					pe, err := ParseExpr(parts[1], w)
					if err != nil {
						return nil, err
					}
					le, err := ParseExpr(parts[2], w)
					if err != nil {
						return nil, err
					}
					c.ModEach = append(c.ModEach, &ModEach{Var: strings.TrimSpace(parts[0]), Pred: pe, LV: le})
					continue
				}
				e, err := ParseExpr(item, w)
				if err != nil {
					return nil, err
				}
				c.Modifies = append(c.Modifies, e)
			}
		case "safety":
			tags, _ := parseTags(rest + " ")
			for _, t := range tags {
				c.SafetyProps[t] = true
			}
		case "termination":
			// like safety, but the property owns only the termination obligations (loop variants, recursion measures)
			tags, _ := parseTags(rest + " ")
			if c.TermProps == nil {
				c.TermProps = map[string]bool{}
			}
			for _, t := range tags {
				c.TermProps[t] = true
			}
		case "formals":
			c.Formals = splitTop(rest)
		case "noframe":
			// no frame condition: nothing is promised about what the function leaves unchanged
			c.NoFrame = true
		case "argsonly":
			// The contract speaks only about the arguments of the function's call sites (site assertions, sites
			// counts). Calls are then plain havoc: no callee precondition is checked and no callee postcondition is
			// assumed, loops need no invariant (everything is havocked at their heads), nothing is claimed about the
			// function's effect. Used for the tag skeleton of generated writers.
			c.ArgsOnly = true
		case "closedheap":
			// Go memory safety, as an assumption about the entry state: every pointer stored in memory refers to an
			// object that is already allocated (objects created later are therefore distinct from everything the
			// heap points to). Stated only where a proof needs it; listed in the evidence as a memory-model assumption.
			c.ClosedHeap = true
		case "perreturn":
			// ensures clauses are checked at each return statement separately instead of at the merged exit
			c.PerReturn = true
		case "opaque":
			// spec functions whose definitions are hidden (uninterpreted) in this function's obligations
			// optional property tags: "opaque [C03] f g" hides the definitions only in runs for those properties
			otags, orest := parseTags(rest + " ")
			for _, n := range strings.Fields(strings.ReplaceAll(orest, ",", " ")) {
				if len(otags) == 0 {
					c.Opaque = append(c.Opaque, n)
				}
				for _, t := range otags {
					c.Opaque = append(c.Opaque, t+":"+n)
				}
			}
		case "results":
			c.Results = splitTop(rest)
		case "allocates":
			c.Allocates = true
		case "pure":
			c.Pure = true
		case "trusted":
			c.Trusted = true
		case "maypanic":
			c.MayPanic = true
		case "decreases":
			for _, item := range splitTop(rest) {
				e, err := ParseExpr(item, w)
				if err != nil {
					return nil, err
				}
				c.Decreases = append(c.Decreases, e)
			}
		case "let":
			kv := strings.SplitN(rest, "=", 2)
			e, err := ParseExpr(kv[1], w)
			if err != nil {
				return nil, err
			}
			c.Lets = append(c.Lets, struct {
				Name string
				E    *Expr
			}{strings.TrimSpace(kv[0]), e})
		case "sites":
			// sites <match> = <n>
			f := strings.SplitN(rest, "=", 2)
			if len(f) != 2 {
				return nil, fmt.Errorf("%s: bad sites clause %q", w, l)
			}
			n, err := strconv.Atoi(strings.TrimSpace(f[1]))
			if err != nil {
				return nil, fmt.Errorf("%s: bad sites clause %q", w, l)
			}
			if c.SiteCount == nil {
				c.SiteCount = map[string]int{}
			}
			c.SiteCount[strings.TrimSpace(f[0])] = n
		case "site":
			// site <callee-substring>#<k> assert [tags] <expr>   |   site <callee-substring>#<k> ghost <lvalue> = <expr>
			f := strings.SplitN(rest, " ", 3)
			if len(f) < 3 {
				return nil, fmt.Errorf("%s: bad site clause %q", w, l)
			}
			mo := strings.SplitN(f[0], "#", 2)
			sc := &SiteClause{Match: mo[0], Kind: f[1]}
			if len(mo) == 2 {
				sc.Ord, _ = strconv.Atoi(mo[1])
			}
			switch f[1] {
			case "assert":
				tags, body := parseTags(f[2])
				e, err := ParseExpr(body, w)
				if err != nil {
					return nil, err
				}
				sc.Tags, sc.E, sc.Src = tags, e, body
				for _, t := range tags {
					c.Props[t] = true
				}
			case "ghost", "ghostafter":
				i := findDefEq(f[2])
				if i < 0 {
					return nil, fmt.Errorf("%s: bad ghost update %q", w, l)
				}
				lhs, err := ParseExpr(f[2][:i], w)
				if err != nil {
					return nil, err
				}
				rhs, err := ParseExpr(f[2][i+1:], w)
				if err != nil {
					return nil, err
				}
				sc.LHS, sc.E, sc.Src = lhs, rhs, f[2]
			default:
				return nil, fmt.Errorf("%s: bad site clause kind %q", w, f[1])
			}
			c.Sites = append(c.Sites, sc)
		case "exitghost":
			// exitghost <ghost lvalue> = <expr>: ghost update performed at every return, before the postcondition
			i := findDefEq(rest)
			if i < 0 {
				return nil, fmt.Errorf("%s: bad exitghost %q", w, l)
			}
			lhs, err := ParseExpr(rest[:i], w)
			if err != nil {
				return nil, err
			}
			rhs, err := ParseExpr(rest[i+1:], w)
			if err != nil {
				return nil, err
			}
			c.ExitGhost = append(c.ExitGhost, &SiteClause{Kind: "exitghost", LHS: lhs, E: rhs, Src: rest})
		case "witness":
			kv := strings.SplitN(rest, "=", 2)
			e, err := ParseExpr(kv[1], w)
			if err != nil {
				return nil, err
			}
			c.Witness = append(c.Witness, struct {
				Name string
				E    *Expr
			}{strings.TrimSpace(kv[0]), e})
		case "replay":
			c.Replay = rest
		case "loop":
			f := strings.SplitN(rest, " ", 3)
			if len(f) < 3 {
				return nil, fmt.Errorf("%s: bad loop clause %q", w, l)
			}
			k, err := strconv.Atoi(f[0])
			if err != nil {
				return nil, fmt.Errorf("%s: bad loop ordinal %q", w, f[0])
			}
			switch f[1] {
			case "invariant":
				tags, body := parseTags(f[2])
				e, err := ParseExpr(body, w)
				if err != nil {
					return nil, err
				}
				for _, t := range tags {
					c.Props[t] = true
				}
				c.LoopInv[k] = append(c.LoopInv[k], &Clause{Kind: "invariant", Tags: tags, E: e, Src: body, Loop: k})
			case "decreases":
				for _, item := range splitTop(f[2]) {
					e, err := ParseExpr(item, w)
					if err != nil {
						return nil, err
					}
					c.LoopDecr[k] = append(c.LoopDecr[k], e)
				}
			case "modifies":
				if strings.TrimSpace(f[2]) == "everything" {
					// no loop frame: the whole heap is havocked at the head, only the invariants survive
					if c.LoopNoFrame == nil {
						c.LoopNoFrame = map[int]bool{}
					}
					c.LoopNoFrame[k] = true
					break
				}
				for _, item := range splitTop(f[2]) {
					e, err := ParseExpr(item, w)
					if err != nil {
						return nil, err
					}
					c.LoopMod[k] = append(c.LoopMod[k], e)
				}
			default:
				return nil, fmt.Errorf("%s: bad loop clause %q", w, l)
			}
		default:
			return nil, fmt.Errorf("%s: unknown clause %q", w, l)
		}
	}
	return c, nil
}

// splitTop splits on commas not nested in brackets.
func splitTop(s string) []string {
	var out []string
	depth := 0
	start := 0
	for i, r := range s {
		switch r {
		case '(', '[':
			depth++
		case ')', ']':
			depth--
		case ',':
			if depth == 0 {
				out = append(out, strings.TrimSpace(s[start:i]))
				start = i + 1
			}
		}
	}
	if strings.TrimSpace(s[start:]) != "" {
		out = append(out, strings.TrimSpace(s[start:]))
	}
	return out
}

// LoadContractComments reads "//@" blocks from a Go source file (comment-only
// contract file). A block starts with "//@ func <key>" (key relative to pkg).
func (sp *Specs) LoadContractComments(path, pkgPath string) (int, error) {
	data, err := os.ReadFile(path)
	if err != nil {
		return 0, err
	}
	var cur []string
	var curKey string
	n := 0
	flush := func() error {
		if curKey == "" {
			return nil
		}
		key := pkgPath + "." + curKey
		if strings.HasPrefix(curKey, "dynamic:") {
			key = "dynamic:" + pkgPath + "." + strings.TrimPrefix(curKey, "dynamic:")
		}
		c, err := parseContract(key, cur, path)
		if err != nil {
			return err
		}
		if _, dup := sp.Contracts[key]; dup {
			return fmt.Errorf("%s: duplicate contract for %s", path, key)
		}
		sp.Contracts[key] = c
		n++
		curKey, cur = "", nil
		return nil
	}
	for _, l := range strings.Split(string(data), "\n") {
		t := strings.TrimSpace(l)
		if !strings.HasPrefix(t, "//@") {
			continue
		}
		body := strings.TrimSpace(t[3:])
		if body == "" || strings.HasPrefix(body, "#") {
			continue
		}
		if strings.HasPrefix(body, "pred ") {
			if err := flush(); err != nil {
				return n, err
			}
			if err := sp.addPred(body[5:], path); err != nil {
				return n, err
			}
			continue
		}
		if strings.HasPrefix(body, "func ") {
			if err := flush(); err != nil {
				return n, err
			}
			curKey = strings.TrimSpace(body[5:])
			continue
		}
		if curKey == "" {
			return n, fmt.Errorf("%s: clause outside a func block: %q", path, body)
		}
		cur = append(cur, body)
	}
	if err := flush(); err != nil {
		return n, err
	}
	return n, nil
}

func sortedKeys[V any](m map[string]V) []string {
	var ks []string
	for k := range m {
		ks = append(ks, k)
	}
	sort.Strings(ks)
	return ks
}

var predHead = regexp.MustCompile(`^([A-Za-z_][A-Za-z0-9_]*)\s*\(([^)]*)\)\s*=\s*(.*)$`)

func (sp *Specs) addPred(src, where string) error {
	m := predHead.FindStringSubmatch(strings.TrimSpace(src))
	if m == nil {
		return fmt.Errorf("%s: bad pred definition %q", where, src)
	}
	e, err := ParseExpr(m[3], where)
	if err != nil {
		return err
	}
	var ps []string
	for _, p := range strings.Split(m[2], ",") {
		if strings.TrimSpace(p) != "" {
			ps = append(ps, strings.TrimSpace(p))
		}
	}
	if old, dup := sp.Preds[m[1]]; dup && old.Body.String() != e.String() {
		return fmt.Errorf("%s: predicate %s is defined twice with different bodies (predicates are global)", where, m[1])
	}
	sp.Preds[m[1]] = &Pred{Name: m[1], Params: ps, Body: e}
	return nil
}
