package main

// Counterexample search and replay on the real code.
//
//  1. cexQuery: the failed obligation is re-posed with the *definitional* spec prelude
//     (recursive spec functions as define-funs-rec, big-endian functions unfolded) and
//     without quantified assumptions; a model gives concrete witness values.
//  2. A test is generated from the function's signature, injected into the package with
//     `go test -overlay` (nothing is written into the repository), run on the real code
//     with the witness values, and reports the observable post-state.
//  3. The violated clause is then evaluated on (witness, observation): if
//     facts /\ clause is unsatisfiable the real code violates the clause on that input.

import (
	"encoding/json"
	"fmt"
	"go/types"
	"os"
	"os/exec"
	"path/filepath"
	"sort"
	"strconv"
	"strings"
	"time"

	"golang.org/x/tools/go/ssa"
)

// ---------------------------------------------------------------- S-expressions

type sx struct {
	atom string
	list []*sx
}

func parseSx(s string) []*sx {
	var out []*sx
	pos := 0
	var parse func() *sx
	skip := func() {
		for pos < len(s) && (s[pos] == ' ' || s[pos] == '\n' || s[pos] == '\t' || s[pos] == '\r') {
			pos++
		}
	}
	parse = func() *sx {
		skip()
		if pos >= len(s) {
			return nil
		}
		if s[pos] == '(' {
			pos++
			n := &sx{list: []*sx{}}
			for {
				skip()
				if pos >= len(s) {
					return n
				}
				if s[pos] == ')' {
					pos++
					return n
				}
				c := parse()
				if c == nil {
					return n
				}
				n.list = append(n.list, c)
			}
		}
		if s[pos] == '|' {
			j := strings.IndexByte(s[pos+1:], '|')
			a := s[pos : pos+2+j]
			pos += 2 + j
			return &sx{atom: a}
		}
		if s[pos] == '"' {
			j := pos + 1
			for j < len(s) && s[j] != '"' {
				j++
			}
			a := s[pos : j+1]
			pos = j + 1
			return &sx{atom: a}
		}
		j := pos
		for j < len(s) && !strings.ContainsRune(" \n\t\r()", rune(s[j])) {
			j++
		}
		a := s[pos:j]
		pos = j
		return &sx{atom: a}
	}
	for {
		n := parse()
		if n == nil {
			break
		}
		out = append(out, n)
	}
	return out
}

func (n *sx) String() string {
	if n.list == nil {
		return n.atom
	}
	var ps []string
	for _, c := range n.list {
		ps = append(ps, c.String())
	}
	return "(" + strings.Join(ps, " ") + ")"
}

// modelValue converts a solver value to a Go value: int64/bigint string, bool, or []int (sequence).
func modelValue(n *sx, sort string) (any, bool) {
	switch sort {
	case "Int":
		if n.list == nil {
			if _, err := strconv.ParseInt(n.atom, 10, 64); err == nil {
				return n.atom, true
			}
			if len(n.atom) > 0 && n.atom[0] >= '0' && n.atom[0] <= '9' {
				return n.atom, true
			}
			return nil, false
		}
		if len(n.list) == 2 && n.list[0].atom == "-" {
			v, ok := modelValue(n.list[1], "Int")
			if !ok {
				return nil, false
			}
			return "-" + v.(string), true
		}
	case "Bool":
		if n.atom == "true" {
			return true, true
		}
		if n.atom == "false" {
			return false, true
		}
	case "(Seq Int)":
		var out []int64
		var rec func(n *sx) bool
		rec = func(n *sx) bool {
			if n.list == nil {
				return n.atom == "seq.empty"
			}
			if len(n.list) == 0 {
				return false
			}
			switch n.list[0].atom {
			case "as":
				return true // (as seq.empty (Seq Int))
			case "seq.unit":
				v, ok := modelValue(n.list[1], "Int")
				if !ok {
					return false
				}
				x, err := strconv.ParseInt(v.(string), 10, 64)
				if err != nil {
					return false
				}
				out = append(out, x)
				return true
			case "seq.++":
				for _, c := range n.list[1:] {
					if !rec(c) {
						return false
					}
				}
				return true
			}
			return false
		}
		if rec(n) {
			if out == nil {
				out = []int64{}
			}
			return out, true
		}
	}
	return nil, false
}

// ---------------------------------------------------------------- counterexample query

func (p *Program) cexQuery(o *Obligation) string {
	q := o.Query
	b := strings.Index(q, "; BEGIN-SPEC\n")
	e := strings.Index(q, "; END-SPEC\n")
	if b < 0 || e < 0 {
		return ""
	}
	q = q[:b] + p.specCex + q[e+len("; END-SPEC\n"):]
	var sb strings.Builder
	for _, l := range strings.Split(q, "\n") {
		if strings.Contains(l, "(forall ") || strings.HasPrefix(l, "(check-sat)") || strings.HasPrefix(l, "(get-value") {
			continue
		}
		sb.WriteString(l + "\n")
	}
	// keep witness sequences small and byte-valued
	for _, w := range o.Wit {
		if w.Sort == "(Seq Int)" {
			sb.WriteString("(assert (<= (seq.len " + w.Term + ") 12))\n")
			for k := 0; k < 12; k++ {
				sb.WriteString(fmt.Sprintf("(assert (=> (< %d (seq.len %s)) (and (<= 0 (seq.nth %s %d)) (<= (seq.nth %s %d) 255))))\n", k, w.Term, w.Term, k, w.Term, k))
			}
		}
	}
	sb.WriteString("(check-sat)\n")
	if len(o.Wit) > 0 {
		sb.WriteString("(get-value (")
		for _, w := range o.Wit {
			sb.WriteString(w.Term + " ")
		}
		sb.WriteString("))\n")
	}
	return sb.String()
}

type cexModel map[string]any

func witnessBounds(o *Obligation) string {
	var sb strings.Builder
	for _, w := range o.Wit {
		if w.Sort == "(Seq Int)" {
			sb.WriteString("(assert (<= (seq.len " + w.Term + ") 12))\n")
			for k := 0; k < 12; k++ {
				sb.WriteString(fmt.Sprintf("(assert (=> (< %d (seq.len %s)) (and (<= 0 (seq.nth %s %d)) (<= (seq.nth %s %d) 255))))\n", k, w.Term, w.Term, k, w.Term, k))
			}
		}
	}
	return sb.String()
}

// candidateQuery: the proof-mode query with witness bounds; cvc5 reports a candidate
// model even when it answers "unknown" (quantifier instantiation saturated).
func (p *Program) candidateQuery(o *Obligation) string {
	var sb strings.Builder
	for _, l := range strings.Split(o.Query, "\n") {
		if strings.HasPrefix(l, "(check-sat)") || strings.HasPrefix(l, "(get-value") {
			continue
		}
		sb.WriteString(l + "\n")
	}
	sb.WriteString(witnessBounds(o))
	sb.WriteString(o.CexExtra + "\n")
	sb.WriteString("(check-sat)\n(get-value (")
	for _, w := range o.Wit {
		sb.WriteString(w.Term + " ")
	}
	sb.WriteString("))\n")
	return sb.String()
}

func parseModel(o *Obligation, s string) cexModel {
	idx := strings.Index(s, "((")
	if idx < 0 {
		return nil
	}
	xs := parseSx(s[idx:])
	if len(xs) == 0 || len(xs[0].list) != len(o.Wit) {
		return nil
	}
	m := cexModel{}
	for i, w := range o.Wit {
		pair := xs[0].list[i]
		if len(pair.list) != 2 {
			return nil
		}
		v, good := modelValue(pair.list[1], w.Sort)
		if !good {
			return nil
		}
		m[w.Name] = v
	}
	return m
}

func (p *Program) findCexFrom(o *Obligation, dir string, timeout time.Duration, attempt int) (cexModel, string) {
	if len(o.Wit) == 0 {
		return nil, "no witnesses declared"
	}
	if attempt == 1 {
		q := p.cexQuery(o)
		if q == "" {
			return nil, "no definitional query"
		}
		file := filepath.Join(dir, "cex_"+sanitize(o.Name)+".smt2")
		os.WriteFile(file, []byte(q), 0o644)
		for _, solver := range []string{"z3-new", "z3"} {
			out, _ := exec.Command(solver, "-smt2", fmt.Sprintf("-T:%d", int(timeout.Seconds())), file).CombinedOutput()
			s := string(out)
			if !strings.HasPrefix(strings.TrimSpace(s), "sat") {
				continue
			}
			if m := parseModel(o, s); m != nil {
				return m, solver + " model of the definitional query"
			}
		}
		return nil, "no model: z3 found no model of the definitional query"
	}
	file := filepath.Join(dir, "cand_"+sanitize(o.Name)+".smt2")
	os.WriteFile(file, []byte(p.candidateQuery(o)), 0o644)
	out, _ := exec.Command("cvc5", "--lang=smt2", "--produce-models", "--strings-exp", fmt.Sprintf("--tlimit=%d", timeout.Milliseconds()), file).CombinedOutput()
	first := strings.TrimSpace(strings.SplitN(string(out), "\n", 2)[0])
	if first == "sat" || first == "unknown" {
		if m := parseModel(o, string(out)); m != nil {
			return m, "cvc5 candidate model (" + first + ")"
		}
	}
	return nil, "cvc5 gave no candidate model"
}

// ---------------------------------------------------------------- harness generation

type obsSpec struct {
	Expr string // contract-language expression ($ replaced by the parameter name)
	Go   string // Go expression producing the value
	Kind string // int bool seq errnil
}

type paramPlan struct {
	setup []string
	arg   string
	obs   []obsSpec
}

type harness struct {
	fn      *ssa.Function
	src     string
	pkgDir  string
	imports map[string]bool
}

func goIntLit(v any) string {
	if v == nil {
		return "0"
	}
	return v.(string)
}

func goBytesLit(v any, elem string) string {
	xs, _ := v.([]int64)
	var ps []string
	for _, x := range xs {
		if elem == "int8" {
			ps = append(ps, fmt.Sprintf("int8(uint8(%d))", x&255))
		} else {
			ps = append(ps, fmt.Sprint(x&255))
		}
	}
	return "[]" + elem + "{" + strings.Join(ps, ", ") + "}"
}

func typeStr(t types.Type, pkg *types.Package) string {
	return types.TypeString(t, func(p *types.Package) string {
		if p == pkg {
			return ""
		}
		return p.Name()
	})
}

func scalarFromWitness(t types.Type, name string, m cexModel, pkg *types.Package, imports map[string]bool) (string, bool) {
	v, have := m[name]
	switch tt := t.Underlying().(type) {
	case *types.Basic:
		switch {
		case tt.Info()&types.IsBoolean != 0:
			if have {
				return fmt.Sprintf("%s(%v)", typeStr(t, pkg), v), true
			}
			return "false", true
		case tt.Info()&types.IsInteger != 0:
			// values outside the type's range are wrapped by an explicit conversion through int64/uint64
			lit := goIntLit(v)
			if !have {
				lit = "0"
			}
			if strings.HasPrefix(lit, "-") || !isSigned(t) && len(lit) < 19 || isSigned(t) && len(lit) < 19 {
				return fmt.Sprintf("func() %s { var x int64 = %s; return %s(x) }()", typeStr(t, pkg), lit, typeStr(t, pkg)), true
			}
			return fmt.Sprintf("func() %s { var x uint64 = %s; return %s(x) }()", typeStr(t, pkg), lit, typeStr(t, pkg)), true
		case tt.Kind() == types.Float32:
			imports["math"] = true
			lit := goIntLit(v)
			return fmt.Sprintf("%s(math.Float32frombits(uint32(%s)))", typeStr(t, pkg), lit), true
		case tt.Kind() == types.Float64:
			imports["math"] = true
			lit := goIntLit(v)
			return fmt.Sprintf("%s(math.Float64frombits(uint64(%s)))", typeStr(t, pkg), lit), true
		case tt.Info()&types.IsString != 0:
			if !have {
				return typeStr(t, pkg) + `("")`, true
			}
			return fmt.Sprintf("%s(%s)", typeStr(t, pkg), goBytesLit(v, "byte")), true
		}
	case *types.Slice:
		if b, ok := tt.Elem().Underlying().(*types.Basic); ok && (b.Kind() == types.Uint8 || b.Kind() == types.Int8) {
			el := "byte"
			if b.Kind() == types.Int8 {
				el = "int8"
			}
			if !have {
				return "[]" + el + "(nil)", true
			}
			return goBytesLit(v, el), true
		}
	}
	return "", false
}

func obsOfScalar(t types.Type, expr, goExpr string, imports map[string]bool) (obsSpec, bool) {
	switch tt := t.Underlying().(type) {
	case *types.Basic:
		switch {
		case tt.Info()&types.IsBoolean != 0:
			return obsSpec{expr, "bool(" + goExpr + ")", "bool"}, true
		case tt.Info()&types.IsInteger != 0:
			if isSigned(t) {
				return obsSpec{expr, "fmt.Sprint(int64(" + goExpr + "))", "int"}, true
			}
			return obsSpec{expr, "fmt.Sprint(uint64(" + goExpr + "))", "int"}, true
		case tt.Kind() == types.Float32:
			imports["math"] = true
			return obsSpec{expr, "fmt.Sprint(math.Float32bits(float32(" + goExpr + ")))", "int"}, true
		case tt.Kind() == types.Float64:
			imports["math"] = true
			return obsSpec{expr, "fmt.Sprint(math.Float64bits(float64(" + goExpr + ")))", "int"}, true
		case tt.Info()&types.IsString != 0:
			return obsSpec{expr, "govcBytes([]byte(string(" + goExpr + ")))", "seq"}, true
		}
	case *types.Slice:
		if b, ok := tt.Elem().Underlying().(*types.Basic); ok && b.Kind() == types.Uint8 {
			return obsSpec{expr, "govcBytes([]byte(" + goExpr + "))", "seq"}, true
		}
		if b, ok := tt.Elem().Underlying().(*types.Basic); ok && b.Kind() == types.Int8 {
			return obsSpec{expr, "govcInt8s([]int8(" + goExpr + "))", "seq"}, true
		}
	case *types.Interface:
		return obsSpec{expr + " == nil", "(" + goExpr + " == nil)", "bool"}, true
	}
	return obsSpec{}, false
}

// planParam produces setup code, the argument expression and observations for one parameter.
func planParam(name string, t types.Type, m cexModel, pkg *types.Package, imports map[string]bool) (paramPlan, bool) {
	ts := t.String()
	switch ts {
	case "*github.com/TarsCloud/TarsGo/tars/protocol/codec.Reader":
		q := ""
		if pkg.Path() != "github.com/TarsCloud/TarsGo/tars/protocol/codec" {
			// foreign package: only the exported API is available; the cursor is not observable
			imports["github.com/TarsCloud/TarsGo/tars/protocol/codec"] = true
			v := "v_" + name
			src := goBytesLit(m["src"], "byte")
			return paramPlan{
				setup: []string{fmt.Sprintf("%s := codec.NewReader(%s)", v, src), fmt.Sprintf("%s.Skip(int(%s))", v, goIntLit(m["i"]))},
				arg:   v,
				obs:   []obsSpec{{"$.buf.src", "govcBytes(" + src + ")", "seq"}},
			}, true
		}
		v := "v_" + name
		src := goBytesLit(m["src"], "byte")
		return paramPlan{
			setup: []string{fmt.Sprintf("%s := %sNewReader(%s)", v, q, src), fmt.Sprintf("%s.buf.Seek(int64(%s), 0)", v, goIntLit(m["i"]))},
			arg:   v,
			obs: []obsSpec{{"$.buf.i", "fmt.Sprint(govcPos(" + v + ".buf))", "int"}, {"$.buf.src", "govcBytes(" + src + ")", "seq"},
				{"$.ref", "govcBytes(" + v + ".ref)", "seq"}},
		}, true
	case "*bytes.Reader":
		imports["bytes"] = true
		v := "v_" + name
		src := goBytesLit(m["src"], "byte")
		return paramPlan{
			setup: []string{fmt.Sprintf("%s := bytes.NewReader(%s)", v, src), fmt.Sprintf("%s.Seek(int64(%s), 0)", v, goIntLit(m["i"]))},
			arg:   v,
			obs:   []obsSpec{{"$.i", "fmt.Sprint(govcPos(" + v + "))", "int"}, {"$.src", "govcBytes(" + src + ")", "seq"}},
		}, true
	case "*github.com/TarsCloud/TarsGo/tars/protocol/codec.Buffer":
		if pkg.Path() != "github.com/TarsCloud/TarsGo/tars/protocol/codec" {
			return paramPlan{}, false
		}
		v := "v_" + name
		return paramPlan{
			setup: []string{fmt.Sprintf("%s := NewBuffer()", v), fmt.Sprintf("%s.buf.Write(%s)", v, goBytesLit(m["out"], "byte"))},
			arg:   v,
			obs:   []obsSpec{{"$.buf.bytes", "govcBytes(" + v + ".buf.Bytes())", "seq"}},
		}, true
	case "*bytes.Buffer":
		imports["bytes"] = true
		v := "v_" + name
		return paramPlan{
			setup: []string{fmt.Sprintf("%s := &bytes.Buffer{}", v), fmt.Sprintf("%s.Write(%s)", v, goBytesLit(m["out"], "byte"))},
			arg:   v,
			obs:   []obsSpec{{"$.bytes", "govcBytes(" + v + ".Bytes())", "seq"}},
		}, true
	}
	if lit, ok := scalarFromWitness(t, name, m, pkg, imports); ok {
		return paramPlan{arg: lit}, true
	}
	if pt, ok := t.Underlying().(*types.Pointer); ok {
		if _, isStruct := pt.Elem().Underlying().(*types.Struct); isStruct {
			// a zero-valued struct as the target
			v := "v_" + name
			return paramPlan{setup: []string{fmt.Sprintf("%s := &%s{}", v, typeStr(pt.Elem(), pkg))}, arg: v}, true
		}
		if lit, ok := scalarFromWitness(pt.Elem(), name+"0", m, pkg, imports); ok {
			v := "v_" + name
			o, ok2 := obsOfScalar(pt.Elem(), "*$", v, imports)
			if !ok2 {
				return paramPlan{}, false
			}
			return paramPlan{setup: []string{fmt.Sprintf("var %s %s = %s", v, typeStr(pt.Elem(), pkg), lit)}, arg: "&" + v, obs: []obsSpec{o}}, true
		}
	}
	return paramPlan{}, false
}

const harnessHelpers = `
type govcObs struct {
	Expr  string      ` + "`json:\"expr\"`" + `
	Kind  string      ` + "`json:\"kind\"`" + `
	Value interface{} ` + "`json:\"value\"`" + `
}

func govcBytes(b []byte) []int {
	out := make([]int, len(b))
	for i, x := range b {
		out[i] = int(x)
	}
	return out
}

func govcInt8s(b []int8) []int {
	out := make([]int, len(b))
	for i, x := range b {
		out[i] = int(uint8(x))
	}
	return out
}

type govcSeeker interface {
	Seek(int64, int) (int64, error)
}

func govcPos(r govcSeeker) int64 { p, _ := r.Seek(0, 1); return p }
`

func buildHarness(fn *ssa.Function, m cexModel) (src string, err error) {
	pkg := fn.Pkg.Pkg
	imports := map[string]bool{"encoding/json": true, "fmt": true, "os": true, "testing": true, "runtime": true}
	var setup, args []string
	var obs []obsSpec
	params := fn.Params
	recvName := ""
	for i, p := range params {
		pl, ok := planParam(p.Name(), p.Type(), m, pkg, imports)
		if !ok {
			return "", fmt.Errorf("no replay adapter for parameter %s of type %s", p.Name(), p.Type())
		}
		setup = append(setup, pl.setup...)
		for _, o := range pl.obs {
			o.Expr = strings.ReplaceAll(o.Expr, "$", p.Name())
			obs = append(obs, o)
		}
		if i == 0 && fn.Signature.Recv() != nil {
			recvName = pl.arg
			continue
		}
		args = append(args, pl.arg)
	}
	call := ""
	if fn.Signature.Recv() != nil {
		call = recvName + "." + fn.Name() + "(" + strings.Join(args, ", ") + ")"
	} else {
		call = fn.Name() + "(" + strings.Join(args, ", ") + ")"
	}
	res := fn.Signature.Results()
	var lhs []string
	names := resultNames(fn.Signature)
	for i := 0; i < res.Len(); i++ {
		lhs = append(lhs, fmt.Sprintf("r%d", i))
		o, ok := obsOfScalar(res.At(i).Type(), names[i][0], fmt.Sprintf("r%d", i), imports)
		if !ok {
			continue
		}
		if _, isIf := res.At(i).Type().Underlying().(*types.Interface); isIf {
			o.Expr = names[i][0] + " == nil"
		}
		obs = append(obs, o)
	}
	var sb strings.Builder
	sb.WriteString("package " + pkg.Name() + "\n\nimport (\n")
	var imps []string
	for k := range imports {
		imps = append(imps, k)
	}
	sort.Strings(imps)
	for _, k := range imps {
		sb.WriteString("\t\"" + k + "\"\n")
	}
	sb.WriteString(")\n" + harnessHelpers + "\nfunc TestGovcReplay(t *testing.T) {\n")
	sb.WriteString("\tout := map[string]interface{}{\"panicked\": false}\n\tvar obs []govcObs\n")
	sb.WriteString("\tdefer func() {\n\t\tout[\"obs\"] = obs\n\t\tdata, _ := json.Marshal(out)\n\t\tos.WriteFile(os.Getenv(\"GOVC_REPLAY_OUT\"), data, 0o644)\n\t}()\n")
	for _, s := range setup {
		sb.WriteString("\t" + s + "\n")
	}
	sb.WriteString("\tvar ms0, ms1 runtime.MemStats\n\truntime.ReadMemStats(&ms0)\n")
	sb.WriteString("\tfunc() {\n\t\tdefer func() {\n\t\t\tif r := recover(); r != nil {\n\t\t\t\tout[\"panicked\"] = true\n\t\t\t\tout[\"panic\"] = fmt.Sprint(r)\n\t\t\t}\n\t\t}()\n")
	if len(lhs) > 0 {
		sb.WriteString("\t\t" + strings.Join(lhs, ", ") + " := " + call + "\n")
		// results observed inside the closure
		for _, o := range obs {
			if strings.HasPrefix(o.Go, "(r") || strings.Contains(o.Go, "(r0") || strings.Contains(o.Go, "(r1") || strings.Contains(o.Go, "(r2") {
				sb.WriteString(fmt.Sprintf("\t\tobs = append(obs, govcObs{%q, %q, %s})\n", o.Expr, o.Kind, o.Go))
			}
		}
		sb.WriteString("\t\t_ = []interface{}{" + strings.Join(lhs, ", ") + "}\n")
	} else {
		sb.WriteString("\t\t" + call + "\n")
	}
	sb.WriteString("\t}()\n\truntime.ReadMemStats(&ms1)\n\tout[\"alloc_bytes\"] = ms1.TotalAlloc - ms0.TotalAlloc\n")
	for _, o := range obs {
		if strings.Contains(o.Go, "(r0") || strings.Contains(o.Go, "(r1") || strings.Contains(o.Go, "(r2") {
			continue
		}
		sb.WriteString(fmt.Sprintf("\tobs = append(obs, govcObs{%q, %q, %s})\n", o.Expr, o.Kind, o.Go))
	}
	sb.WriteString("}\n")
	return sb.String(), nil
}

type replayResult struct {
	Ran       bool                     `json:"ran"`
	Panicked  bool                     `json:"panicked"`
	Panic     string                   `json:"panic,omitempty"`
	Crashed   bool                     `json:"crashed"`
	Output    string                   `json:"output,omitempty"`
	Alloc     float64                  `json:"alloc_bytes"`
	Obs       []map[string]interface{} `json:"obs"`
	Confirmed bool                     `json:"confirmed"`
	Why       string                   `json:"why"`
	Harness   string                   `json:"harness,omitempty"`
}

func runHarness(fn *ssa.Function, prog *Program, src string) replayResult {
	var rr replayResult
	rr.Harness = src
	dir := filepath.Dir(prog.fset.Position(fn.Pos()).Filename)
	tmp, err := os.MkdirTemp("", "govc-replay-")
	if err != nil {
		rr.Why = err.Error()
		return rr
	}
	defer os.RemoveAll(tmp)
	testFile := filepath.Join(tmp, "govc_replay_test.go")
	os.WriteFile(testFile, []byte(src), 0o644)
	ov := map[string]any{"Replace": map[string]string{filepath.Join(dir, "govc_replay_zz_test.go"): testFile}}
	ovData, _ := json.Marshal(ov)
	ovFile := filepath.Join(tmp, "ov.json")
	os.WriteFile(ovFile, ovData, 0o644)
	outFile := filepath.Join(tmp, "out.json")
	bin := filepath.Join(tmp, "replay.test")
	env := append(os.Environ(), "GOFLAGS=-mod=mod", "GOPROXY=off", "GOSUMDB=off", "GOTOOLCHAIN=local", "GOVC_REPLAY_OUT="+outFile)
	c := exec.Command("go", "test", "-c", "-overlay", ovFile, "-vet=off", "-o", bin, ".")
	c.Dir = dir
	c.Env = env
	if out, err := c.CombinedOutput(); err != nil {
		rr.Why = "harness does not compile: " + truncate(string(out), 2000)
		return rr
	}
	run := exec.Command("sh", "-c", "ulimit -v 6291456; exec "+bin+" -test.run '^TestGovcReplay$' -test.timeout 60s")
	run.Dir = tmp
	run.Env = env
	out, runErr := run.CombinedOutput()
	rr.Ran = true
	rr.Output = truncate(string(out), 3000)
	data, err := os.ReadFile(outFile)
	if err != nil {
		rr.Crashed = true
		rr.Why = fmt.Sprintf("process died without reporting (%v)", runErr)
		return rr
	}
	var o struct {
		Panicked bool                     `json:"panicked"`
		Panic    string                   `json:"panic"`
		Alloc    float64                  `json:"alloc_bytes"`
		Obs      []map[string]interface{} `json:"obs"`
	}
	json.Unmarshal(data, &o)
	rr.Panicked, rr.Panic, rr.Alloc, rr.Obs = o.Panicked, o.Panic, o.Alloc, o.Obs
	return rr
}

func smtSeq(xs []interface{}) string {
	if len(xs) == 0 {
		return "emptyseq"
	}
	var ps []string
	for _, x := range xs {
		ps = append(ps, fmt.Sprintf("(seq.unit %d)", int64(x.(float64))))
	}
	if len(ps) == 1 {
		return ps[0]
	}
	return "(seq.++ " + strings.Join(ps, " ") + ")"
}

func smtOfModelValue(v any, sort string) string {
	switch sort {
	case "Int":
		s := v.(string)
		if strings.HasPrefix(s, "-") {
			return "(- " + s[1:] + ")"
		}
		return s
	case "Bool":
		return fmt.Sprint(v)
	case "(Seq Int)":
		xs := v.([]int64)
		if len(xs) == 0 {
			return "emptyseq"
		}
		var ps []string
		for _, x := range xs {
			ps = append(ps, fmt.Sprintf("(seq.unit %d)", x))
		}
		if len(ps) == 1 {
			return ps[0]
		}
		return "(seq.++ " + strings.Join(ps, " ") + ")"
	}
	return ""
}

// evalClause decides whether the observed behaviour violates the clause.
func (p *Program) evalClause(fn *ssa.Function, con *Contract, o *Obligation, m cexModel, rr *replayResult, dir string) {
	g := newGen(p, fn, con)
	err := func() (err error) {
		defer func() {
			if r := recover(); r != nil {
				err = fmt.Errorf("%v", r)
			}
		}()
		st := g.setupEntry()
		// witness values
		for _, w := range g.wits {
			if v, ok := m[w.Name]; ok {
				g.assume("(= " + w.Term + " " + smtOfModelValue(v, w.Sort) + ")")
			}
		}
		post := st.clone()
		g.havocAll(post)
		vars := map[string]Val{}
		for k, v := range g.penv {
			vars[k] = v
		}
		names := resultNames(fn.Signature)
		for i := range names {
			rt := fn.Signature.Results().At(i).Type()
			n := g.freshConst("obsret", g.u.sortOf(rt))
			for _, nm := range names[i] {
				vars[nm] = Val{T: n, Sort: g.u.sortOf(rt), GoT: rt}
			}
		}
		env := g.envFor(vars, post, g.old)
		for _, ob := range rr.Obs {
			ex, _ := ob["expr"].(string)
			e, perr := ParseExpr(ex, "observation")
			if perr != nil {
				return perr
			}
			var lhs string
			switch ob["kind"] {
			case "int":
				lhs = "(= " + env.trInt(e) + " " + smtOfModelValue(ob["value"].(string), "Int") + ")"
			case "bool":
				b := ob["value"].(bool)
				lhs = "(= " + env.trBool(e) + " " + fmt.Sprint(b) + ")"
			case "seq":
				xs, _ := ob["value"].([]interface{})
				lhs = "(= " + env.trSeq(e) + " " + smtSeq(xs) + ")"
			}
			g.assume(lhs)
		}
		// the clause
		var clause *Expr
		for i, c := range con.Ensures {
			if o.Name == fmt.Sprintf("%s/ensures#%d", shortKey(g.key), i) {
				clause = c.E
			}
		}
		if clause == nil {
			return fmt.Errorf("clause evaluation is implemented for ensures clauses only")
		}
		g.assume(env.trBool(clause))
		return nil
	}()
	if err != nil {
		rr.Why = "cannot evaluate the clause on the observation: " + err.Error()
		return
	}
	var sb strings.Builder
	h := g.header()
	b := strings.Index(h, "; BEGIN-SPEC\n")
	e := strings.Index(h, "; END-SPEC\n")
	h = h[:b] + p.specCex + h[e+len("; END-SPEC\n"):]
	sb.WriteString(h)
	for _, l := range g.lines {
		if strings.Contains(l, "(forall ") {
			continue
		}
		sb.WriteString(l + "\n")
	}
	sb.WriteString("(check-sat)\n")
	file := filepath.Join(dir, "eval_"+sanitize(o.Name)+".smt2")
	os.WriteFile(file, []byte(sb.String()), 0o644)
	out, _ := exec.Command("z3-new", "-smt2", "-T:20", file).CombinedOutput()
	first := strings.TrimSpace(strings.SplitN(string(out), "\n", 2)[0])
	switch first {
	case "unsat":
		rr.Confirmed = true
		rr.Why = "the clause is unsatisfiable together with the witness input and the behaviour observed on the real code"
	case "sat":
		rr.Why = "the real code satisfies the clause on the model's input (the model exploited an abstraction)"
	default:
		rr.Why = "clause evaluation undecided: " + first
	}
}

// replayObligation runs the whole pipeline for one failed obligation.
func (p *Program) replayObligation(o *Obligation, dir string) (cexModel, *replayResult) {
	fn := p.fns[o.Fn]
	con := p.specs.Contracts[o.Fn]
	if fn == nil || con == nil {
		return nil, &replayResult{Why: "no function to replay (spec lemma)"}
	}
	var m cexModel
	var rr replayResult
	var lastWhy string
	for attempt := 0; attempt < 2; attempt++ {
		var how string
		m, how = p.findCexFrom(o, dir, 10*time.Second, attempt)
		if m == nil {
			lastWhy = how
			continue
		}
		src, err := buildHarness(fn, m)
		if err != nil {
			return m, &replayResult{Why: err.Error()}
		}
		rr = runHarness(fn, p, src)
		if !rr.Ran {
			return m, &rr
		}
		p.judge(fn, con, o, m, &rr, dir)
		if rr.Confirmed {
			return m, &rr
		}
	}
	if m == nil {
		return nil, &replayResult{Why: lastWhy}
	}
	return m, &rr
}

// judge decides whether the observed run confirms the violation.
func (p *Program) judge(fn *ssa.Function, con *Contract, o *Obligation, m cexModel, prr *replayResult, dir string) {
	rr := *prr
	defer func() { *prr = rr }()
	switch o.Kind {
	case "nil", "bounds", "slicebounds", "makelen", "divzero", "typeassert", "panic", "nilmap":
		if rr.Panicked || rr.Crashed {
			rr.Confirmed = true
			rr.Why = "the real code panics on the model's input: " + rr.Panic
		} else {
			rr.Why = "the real code does not panic on the model's input"
		}
	case "allocbound":
		in := 0
		if s, ok := m["src"].([]int64); ok {
			in = len(s)
		}
		if rr.Crashed || rr.Panicked || rr.Alloc > float64(64*in+1<<20) {
			rr.Confirmed = true
			rr.Why = fmt.Sprintf("input of %d bytes: allocated %.0f bytes / crashed=%v panicked=%v %s", in, rr.Alloc, rr.Crashed, rr.Panicked, rr.Panic)
		} else {
			rr.Why = fmt.Sprintf("allocation within bound on the model's input (%.0f bytes)", rr.Alloc)
		}
	default:
		if rr.Panicked || rr.Crashed {
			rr.Confirmed = true
			rr.Why = "the real code panics on the model's input: " + rr.Panic
			break
		}
		p.evalClause(fn, con, o, m, &rr, dir)
	}
}
