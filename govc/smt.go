package main

import (
	"runtime"
	"strconv"
	"bytes"
	"context"
	"fmt"
	"os"
	"os/exec"
	"path/filepath"
	"strings"
	"sync"
	"time"
)

const smtPrelude = `; govc prelude
(declare-datatypes ((Path 0)) (((pnil) (pfld (pth_base Path) (pth_f Int)) (pelm (pth_ebase Path) (pth_i Int)))))
(declare-datatypes ((Loc 0)) (((mkloc (l_obj Int) (l_path Path)))))
(define-fun nilloc () Loc (mkloc 0 pnil))
(define-fun fld ((l Loc) (f Int)) Loc (mkloc (l_obj l) (pfld (l_path l) f)))
(define-fun elm ((l Loc) (i Int)) Loc (mkloc (l_obj l) (pelm (l_path l) i)))
(define-fun pathid ((p Path)) Path p)
(define-fun pbase1 ((p Path)) Path (pth_base p))
(define-fun pbase2 ((p Path)) Path (pth_base (pth_base p)))
(define-fun pbase3 ((p Path)) Path (pth_base (pth_base (pth_base p))))
(declare-datatypes ((Slice 0)) (((mkslice (s_arr Loc) (s_off Int) (s_len Int) (s_cap Int)))))
(define-fun nilslice () Slice (mkslice nilloc 0 0 0))
(declare-datatypes ((Iface 0)) (((mkiface (i_typ Int) (i_val Loc)))))
(define-fun nilif () Iface (mkiface 0 nilloc))
(define-fun emptyseq () (Seq Int) (as seq.empty (Seq Int)))
(define-fun bytesOf ((h (Array Loc (Seq Int))) (s Slice)) (Seq Int) (seq.extract (select h (s_arr s)) (s_off s) (s_len s)))
(define-fun sub ((s (Seq Int)) (a Int) (b Int)) (Seq Int) (seq.extract s a (- b a)))
(define-fun splice ((s (Seq Int)) (off Int) (t (Seq Int))) (Seq Int)
  (seq.++ (seq.extract s 0 off) t (seq.extract s (+ off (seq.len t)) (- (seq.len s) (+ off (seq.len t))))))
(define-fun validslice ((s Slice)) Bool (and (<= 0 (s_off s)) (<= 0 (s_len s)) (<= (s_len s) (s_cap s)) (<= (+ (s_off s) (s_cap s)) 9223372036854775807)))
(define-fun validbytes ((h (Array Loc (Seq Int))) (s Slice)) Bool
  (and (validslice s) (<= (+ (s_off s) (s_cap s)) (seq.len (select h (s_arr s))))))
(define-fun wrapu ((x Int) (m Int)) Int (ite (and (<= 0 x) (< x m)) x (mod x m)))
(define-fun wraps ((x Int) (m Int)) Int (let ((h (div m 2))) (ite (and (<= (- h) x) (< x h)) x (- (mod (+ x h) m) h))))
(define-fun tdiv ((a Int) (b Int)) Int (ite (>= a 0) (ite (> b 0) (div a b) (- (div a (- b)))) (ite (> b 0) (- (div (- a) b)) (div (- a) (- b)))))
(define-fun tmod ((a Int) (b Int)) Int (ite (and (>= a 0) (> b 0)) (mod a b) (- a (* b (tdiv a b)))))
(define-fun imin ((a Int) (b Int)) Int (ite (<= a b) a b))
(define-fun imax ((a Int) (b Int)) Int (ite (>= a b) a b))
(declare-fun bor (Int Int) Int)
(declare-fun band (Int Int) Int)
(declare-fun bxor (Int Int) Int)
(declare-fun bshl (Int Int) Int)
(declare-fun bshr (Int Int) Int)
(declare-fun f32to64 (Int) Int)
(declare-fun f64to32 (Int) Int)
(declare-fun fop (Int Int Int) Int)
(declare-fun fcmp (Int Int Int) Bool)
(declare-fun i2f (Int Int) Int)
(declare-fun f2i (Int Int) Int)
(declare-fun strlt ((Seq Int) (Seq Int)) Bool)
`

type SolverResult struct {
	Verdict string // unsat sat unknown timeout error
	Solver  string
	Time    float64
	Output  string
}

var solverCmds = [][]string{
	{"z3", "-smt2"},
	{"z3-new", "-smt2"},
	{"cvc5", "--lang=smt2", "--produce-models", "--strings-exp"},
}

var solverSem = make(chan struct{}, 16)

func runOne(ctx context.Context, cmd []string, file string, timeout time.Duration) SolverResult {
	t0 := time.Now()
	args := append([]string{}, cmd[1:]...)
	switch cmd[0] {
	case "z3", "z3-new":
		args = append(args, fmt.Sprintf("-T:%d", int(timeout.Seconds())+1))
	case "cvc5":
		args = append(args, fmt.Sprintf("--tlimit=%d", int(timeout.Milliseconds())))
	}
	args = append(args, file)
	cctx, cancel := context.WithTimeout(ctx, timeout+2*time.Second)
	defer cancel()
	c := exec.CommandContext(cctx, cmd[0], args...)
	var out bytes.Buffer
	c.Stdout = &out
	c.Stderr = &out
	_ = c.Run()
	s := out.String()
	// the verdict is the first line that is not a solver warning (z3 warns about, and then ignores,
	// patterns that contain connectives)
	first := ""
	for _, ln := range strings.Split(s, "\n") {
		ln = strings.TrimSpace(ln)
		if ln == "" || strings.HasPrefix(ln, "WARNING") {
			continue
		}
		first = ln
		break
	}
	r := SolverResult{Solver: cmd[0], Time: time.Since(t0).Seconds(), Output: s}
	switch {
	case first == "unsat":
		r.Verdict = "unsat"
	case first == "sat":
		r.Verdict = "sat"
	case first == "unknown":
		r.Verdict = "unknown"
	case strings.Contains(first, "timeout") || cctx.Err() != nil:
		r.Verdict = "timeout"
	default:
		r.Verdict = "error"
	}
	return r
}

// Solve races the three solvers on the query; first definitive answer wins.
// loadFactor stretches solver time limits on an overloaded machine: a limit is meant as CPU time the solver
// gets, and with more runnable processes than cores (several checks started at once) a solver gets only a
// fraction of the wall clock. Factor = 1-minute load average / number of CPUs, between 1 and 8.
func loadFactor() float64 {
	b, err := os.ReadFile("/proc/loadavg")
	if err != nil {
		return 1
	}
	f := strings.Fields(string(b))
	if len(f) == 0 {
		return 1
	}
	l, err := strconv.ParseFloat(f[0], 64)
	if err != nil {
		return 1
	}
	x := l / float64(runtime.NumCPU())
	if x < 1 {
		return 1
	}
	if x > 8 {
		return 8
	}
	return x
}

func Solve(query string, dir, name string, timeout time.Duration, wantModel bool) SolverResult {
	timeout = time.Duration(float64(timeout) * loadFactor())
	file := filepath.Join(dir, name+".smt2")
	if err := os.WriteFile(file, []byte(query), 0o644); err != nil {
		return SolverResult{Verdict: "error", Output: err.Error()}
	}
	ctx, cancel := context.WithCancel(context.Background())
	defer cancel()
	cmds := solverCmds
	if !wantModel { // vacuity probe: one solver suffices
		cmds = solverCmds[1:2]
	}
	results := make(chan SolverResult, len(cmds))
	var wg sync.WaitGroup
	for _, cmd := range cmds {
		wg.Add(1)
		go func(cmd []string) {
			defer wg.Done()
			solverSem <- struct{}{}
			defer func() { <-solverSem }()
			if ctx.Err() != nil {
				results <- SolverResult{Verdict: "cancelled", Solver: cmd[0]}
				return
			}
			results <- runOne(ctx, cmd, file, timeout)
		}(cmd)
	}
	go func() { wg.Wait(); close(results) }()
	var all []SolverResult
	var best *SolverResult
	for r := range results {
		all = append(all, r)
		if r.Verdict == "unsat" || r.Verdict == "sat" {
			rr := r
			best = &rr
			cancel()
			break
		}
	}
	if best != nil {
		if !keepSMT && best.Verdict == "unsat" {
			os.Remove(file)
		}
		return *best
	}
	// no definitive answer
	v := "unknown"
	var outs []string
	var tm float64
	for _, r := range all {
		if r.Verdict == "error" {
			v = "error"
		}
		outs = append(outs, r.Solver+": "+r.Verdict+" "+firstLines(r.Output, 3))
		if r.Time > tm {
			tm = r.Time
		}
	}
	if v != "error" {
		allTO := true
		for _, r := range all {
			if r.Verdict != "timeout" {
				allTO = false
			}
		}
		if allTO {
			v = "timeout"
		}
	}
	return SolverResult{Verdict: v, Solver: "none", Time: tm, Output: strings.Join(outs, "\n")}
}

func firstLines(s string, n int) string {
	ls := strings.Split(s, "\n")
	if len(ls) > n {
		ls = ls[:n]
	}
	return strings.Join(ls, " | ")
}

var keepSMT = os.Getenv("GOVC_KEEP_SMT") != ""
