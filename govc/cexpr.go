package main

// Translation of contract/spec expressions to SMT terms.

import (
	"fmt"
	"go/constant"
	"go/token"
	"go/types"
	"math/big"
	"strings"

	"golang.org/x/tools/go/ssa"
)

type Env struct {
	g    *Gen
	vars map[string]Val
	cur  *State
	old  *State
	pure bool // spec-function body: no heap access
	pkg  *types.Package
	inPat bool // translating a quantifier pattern: only uninterpreted terms (no connectives)
}

func (e *Env) child() *Env {
	n := *e
	n.vars = map[string]Val{}
	for k, v := range e.vars {
		n.vars[k] = v
	}
	return &n
}

type trErr struct{ msg string }

func (t trErr) Error() string { return t.msg }

func fail(format string, a ...any) { panic(trErr{fmt.Sprintf(format, a...)}) }

func (e *Env) u() *Universe { return e.g.u }

// load reads a scalar cell of heap kind k at loc in state st.
func (e *Env) sel(st *State, kind, loc string) string {
	return "(select " + e.g.heap(st, kind) + " " + loc + ")"
}

// rv turns an lvalue into an rvalue in the current state.
func (e *Env) rv(v Val) Val {
	if !v.isLv() {
		return v
	}
	if e.pure {
		fail("heap access in pure context")
	}
	st := e.cur
	if v.GKind != "" {
		return Val{T: e.sel(st, v.GKind, v.Addr), Sort: e.u().kindSort[v.GKind], GoT: v.GoT}
	}
	if v.Win != nil {
		return Val{T: "(seq.extract (select " + e.g.heap(st, "bytes") + " " + v.Win.arr + ") " + v.Win.off + " " + v.Win.n + ")", Sort: "(Seq Int)"}
	}
	t := e.g.loadType(st, v.Addr, v.GoT, false)
	// memory is well typed: an integer cell holds a value of its type's range
	if isInteger(v.GoT) && !strings.Contains(t, "q!") && !strings.Contains(t, "dummy!") && e.g.lines != nil {
		if rf := rangeFact(t, v.GoT); rf != "" {
			if e.g.rangeSeen == nil {
				e.g.rangeSeen = map[string]bool{}
			}
			if !e.g.rangeSeen[t] {
				e.g.rangeSeen[t] = true
				e.g.assume(rf)
			}
		}
	}
	if _, isSl := v.GoT.Underlying().(*types.Slice); isSl && !strings.Contains(t, "q!") && !strings.Contains(t, "dummy!") && e.g.lines != nil {
		if e.g.rangeSeen == nil {
			e.g.rangeSeen = map[string]bool{}
		}
		if !e.g.rangeSeen[t] {
			e.g.rangeSeen[t] = true
			e.g.assume("(validslice " + t + ")") // memory is well typed: slice headers are valid
		}
	}
	// memory is well typed: a pointer cell holds nil or the address of an allocated object
	if _, isPtr := v.GoT.Underlying().(*types.Pointer); isPtr && !strings.Contains(t, "q!") && !strings.Contains(t, "dummy!") && e.g.lines != nil && st != nil && st.A != "" {
		key := t + "@" + st.A
		if e.g.rangeSeen == nil {
			e.g.rangeSeen = map[string]bool{}
		}
		if !e.g.rangeSeen[key] {
			e.g.rangeSeen[key] = true
			e.g.assume("(< (l_obj " + t + ") " + st.A + ")")
		}
	}
	return Val{T: t, Sort: e.u().sortOf(v.GoT), GoT: v.GoT}
}

func (e *Env) asSeq(v Val) string {
	v = e.rv(v)
	switch {
	case v.Sort == "(Seq Int)":
		return v.T
	case v.Sort == "Slice" && v.GoT != nil && isByteSlice(v.GoT):
		if e.pure {
			fail("slice content in pure context")
		}
		return "(bytesOf " + e.g.heap(e.cur, "bytes") + " " + v.T + ")"
	}
	fail("expected a byte sequence, got sort %s (%v)", v.Sort, v.GoT)
	return ""
}

func (e *Env) asInt(v Val) string {
	v = e.rv(v)
	if v.Sort != "Int" {
		fail("expected int, got %s (term %s)", v.Sort, v.T)
	}
	return v.T
}

func (e *Env) asBool(v Val) string {
	v = e.rv(v)
	if v.Sort != "Bool" {
		fail("expected bool, got %s (term %s)", v.Sort, v.T)
	}
	return v.T
}

func (e *Env) trBool(x *Expr) string { return e.asBool(e.tr(x)) }
func (e *Env) trInt(x *Expr) string  { return e.asInt(e.tr(x)) }
func (e *Env) trSeq(x *Expr) string  { return e.asSeq(e.tr(x)) }

func seqLike(v Val) bool {
	return v.Sort == "(Seq Int)" || (v.Sort == "Slice" && v.GoT != nil && isByteSlice(v.GoT)) || (v.isLv() && v.Win != nil) ||
		(v.isLv() && v.GoT != nil && (isByteSlice(v.GoT) || isString(v.GoT) || isByteArray(v.GoT))) || (v.isLv() && v.GKind == "gseq")
}

func (e *Env) tr(x *Expr) Val {
	switch x.Op {
	case "int":
		return Val{T: smtInt(x.Int), Sort: "Int"}
	case "bool":
		return Val{T: x.Name, Sort: "Bool"}
	case "nil":
		return Val{T: "nil", Sort: "Nil"}
	case "str":
		return Val{T: seqOfString(x.Str), Sort: "(Seq Int)"}
	case "seqlit":
		if len(x.Args) == 0 {
			return Val{T: "emptyseq", Sort: "(Seq Int)"}
		}
		var parts []string
		for _, a := range x.Args {
			parts = append(parts, "(seq.unit "+e.trInt(a)+")")
		}
		if len(parts) == 1 {
			return Val{T: parts[0], Sort: "(Seq Int)"}
		}
		return Val{T: "(seq.++ " + strings.Join(parts, " ") + ")", Sort: "(Seq Int)"}
	case "id":
		return e.ident(x.Name)
	case "old":
		if e.old == nil {
			fail("old() not available here")
		}
		n := *e
		n.cur = e.old
		v := n.tr(x.Args[0])
		return n.rv(v)
	case "field":
		if b := x.Args[0]; b.Op == "id" {
			if _, isVar := e.vars[b.Name]; !isVar {
				if pk := e.g.prog.pkgByName(b.Name, e.pkg); pk != nil {
					n := e.child()
					n.pkg = pk
					n.vars = map[string]Val{}
					return n.ident(x.Name)
				}
			}
		}
		return e.field(e.tr(x.Args[0]), x.Name)
	case "index":
		base := e.tr(x.Args[0])
		if seqLike(base) {
			return Val{T: "(seq.nth " + e.asSeq(base) + " " + e.trInt(x.Args[1]) + ")", Sort: "Int"}
		}
		b := e.rv(base)
		idx := e.tr(x.Args[1])
		if strings.HasPrefix(b.Sort, "(Array ") {
			es := arrayElemSort(b.Sort)
			return Val{T: "(select " + b.T + " " + e.rv(idx).T + ")", Sort: es}
		}
		if b.Sort == "Slice" && b.GoT != nil {
			el := b.GoT.Underlying().(*types.Slice).Elem()
			return Val{Addr: "(elm (s_arr " + b.T + ") (+ (s_off " + b.T + ") " + e.asInt(idx) + "))", GoT: el}
		}
		if b.Sort == "Loc" && b.GoT != nil {
			if m, ok := b.GoT.Underlying().(*types.Map); ok {
				return e.mapGet(b, m, e.rv(idx))
			}
			if p, ok := b.GoT.Underlying().(*types.Pointer); ok {
				if a, ok := p.Elem().Underlying().(*types.Array); ok {
					return Val{Addr: "(elm " + b.T + " " + e.asInt(idx) + ")", GoT: a.Elem()}
				}
			}
		}
		fail("cannot index %s", x.Args[0])
	case "slice":
		s := e.asSeq(e.tr(x.Args[0]))
		lo := "0"
		if x.Args[1] != nil {
			lo = e.trInt(x.Args[1])
		}
		hi := "(seq.len " + s + ")"
		if x.Args[2] != nil {
			hi = e.trInt(x.Args[2])
		}
		return Val{T: "(sub " + s + " " + lo + " " + hi + ")", Sort: "(Seq Int)"}
	case "unop":
		switch x.Name {
		case "!":
			return Val{T: "(not " + e.trBool(x.Args[0]) + ")", Sort: "Bool"}
		case "-":
			return Val{T: "(- " + e.trInt(x.Args[0]) + ")", Sort: "Int"}
		case "*":
			p := e.rv(e.tr(x.Args[0]))
			if p.Sort != "Loc" || p.GoT == nil {
				fail("cannot dereference %s", x.Args[0])
			}
			pt, ok := p.GoT.Underlying().(*types.Pointer)
			if !ok {
				fail("cannot dereference non-pointer %s", x.Args[0])
			}
			return Val{Addr: p.T, GoT: pt.Elem()}
		case "&":
			v := e.tr(x.Args[0])
			if !v.isLv() {
				fail("cannot take address of %s", x.Args[0])
			}
			var gt types.Type
			if v.GoT != nil {
				gt = types.NewPointer(v.GoT)
			}
			return Val{T: v.Addr, Sort: "Loc", GoT: gt}
		}
	case "binop":
		return e.binop(x)
	case "ite":
		c := e.trBool(x.Args[0])
		a := e.tr(x.Args[1])
		b := e.tr(x.Args[2])
		if seqLike(a) || seqLike(b) {
			return Val{T: "(ite " + c + " " + e.asSeq(a) + " " + e.asSeq(b) + ")", Sort: "(Seq Int)"}
		}
		a, b = e.rv(a), e.rv(b)
		a, b = e.unifyNil(a, b)
		if a.Sort != b.Sort {
			fail("ite branches have different sorts %s / %s in %s", a.Sort, b.Sort, x)
		}
		return Val{T: "(ite " + c + " " + a.T + " " + b.T + ")", Sort: a.Sort, GoT: a.GoT}
	case "forall", "exists":
		n := e.child()
		var bs []string
		for _, p := range x.Bound {
			if strings.HasPrefix(p.Type, "*") {
				// typed pointer variable: ranges over all locations, fields resolve through the named struct type
				if e.pkg == nil {
					fail("quantifier over %s: no package scope", p.Type)
				}
				tobj, ok := e.pkg.Scope().Lookup(p.Type[1:]).(*types.TypeName)
				if !ok {
					fail("quantifier: unknown type %s", p.Type)
				}
				n.vars[p.Name] = Val{T: "q!" + p.Name, Sort: "Loc", GoT: types.NewPointer(tobj.Type())}
				bs = append(bs, "(q!"+p.Name+" Loc)")
				continue
			}
			s := specSort(p.Type)
			n.vars[p.Name] = Val{T: "q!" + p.Name, Sort: s}
			bs = append(bs, "(q!"+p.Name+" "+s+")")
		}
		body := n.trBool(x.Args[0])
		if len(x.Args) > 1 {
			var ps []string
			attrs := ""
			for _, pe := range x.Args[1:] {
				if pe.Op == "patsep" {
					attrs += " :pattern (" + strings.Join(ps, " ") + ")"
					ps = nil
					continue
				}
				n.inPat = true
				pv := n.tr(pe)
				if seqLike(pv) {
					ps = append(ps, n.asSeq(pv))
				} else {
					ps = append(ps, n.rv(pv).T)
				}
				n.inPat = false
			}
			attrs += " :pattern (" + strings.Join(ps, " ") + ")"
			body = "(! " + body + attrs + ")"
		}
		return Val{T: "(" + x.Op + " (" + strings.Join(bs, " ") + ") " + body + ")", Sort: "Bool"}
	case "let":
		v := e.tr(x.Args[0])
		if seqLike(v) {
			v = Val{T: e.asSeq(v), Sort: "(Seq Int)"}
		} else {
			v = e.rv(v)
		}
		n := e.child()
		n.vars[x.Bound[0].Name] = v
		return n.tr(x.Args[1])
	case "call":
		return e.call(x)
	}
	fail("cannot translate %s", x)
	return Val{}
}

func arrayElemSort(s string) string {
	// "(Array K V)" -> V ; K has no spaces unless parenthesised
	inner := strings.TrimSuffix(strings.TrimPrefix(s, "(Array "), ")")
	depth := 0
	for i, r := range inner {
		switch r {
		case '(':
			depth++
		case ')':
			depth--
		case ' ':
			if depth == 0 {
				return inner[i+1:]
			}
		}
	}
	return inner
}

func arrayKeySort(s string) string {
	inner := strings.TrimSuffix(strings.TrimPrefix(s, "(Array "), ")")
	depth := 0
	for i, r := range inner {
		switch r {
		case '(':
			depth++
		case ')':
			depth--
		case ' ':
			if depth == 0 {
				return inner[:i]
			}
		}
	}
	return inner
}

func seqOfString(s string) string {
	if len(s) == 0 {
		return "emptyseq"
	}
	var parts []string
	for i := 0; i < len(s); i++ {
		parts = append(parts, fmt.Sprintf("(seq.unit %d)", s[i]))
	}
	if len(parts) == 1 {
		return parts[0]
	}
	return "(seq.++ " + strings.Join(parts, " ") + ")"
}

func (e *Env) ident(name string) Val {
	if v, ok := e.vars[name]; ok {
		return v
	}
	if c, ok := e.g.prog.specs.Consts[name]; ok {
		pe := &Env{g: e.g, vars: map[string]Val{}, pure: true}
		return pe.tr(c)
	}
	if e.pkg != nil {
		if obj := e.pkg.Scope().Lookup(name); obj != nil {
			switch o := obj.(type) {
			case *types.Const:
				return e.constVal(o.Val(), o.Type())
			case *types.Var:
				if sp := e.g.prog.ssa.Package(o.Pkg()); sp != nil {
					if gl, ok := sp.Members[o.Name()].(*ssa.Global); ok {
						if c, isConst := e.g.prog.constGlobals[gl]; isConst {
							return e.g.constVal(c)
						}
					}
				}
				return Val{Addr: e.g.globalLoc(o), GoT: o.Type()}
			}
		}
	}
	fail("unknown identifier %q", name)
	return Val{}
}

func (e *Env) constVal(c constant.Value, t types.Type) Val {
	switch c.Kind() {
	case constant.Bool:
		if constant.BoolVal(c) {
			return Val{T: "true", Sort: "Bool", GoT: t}
		}
		return Val{T: "false", Sort: "Bool", GoT: t}
	case constant.Int:
		n, _ := new(big.Int).SetString(c.ExactString(), 10)
		return Val{T: smtInt(n), Sort: "Int", GoT: t}
	case constant.String:
		return Val{T: seqOfString(constant.StringVal(c)), Sort: "(Seq Int)", GoT: t}
	}
	fail("unsupported constant %s", c)
	return Val{}
}

func namedOwner(t types.Type) string {
	if p, ok := t.(*types.Pointer); ok {
		t = p.Elem()
	}
	if n, ok := t.(*types.Named); ok {
		if n.Obj().Pkg() != nil {
			return n.Obj().Pkg().Path() + "." + n.Obj().Name()
		}
		return n.Obj().Name()
	}
	return ""
}

func (e *Env) field(base Val, name string) Val {
	// captured variables in closures are pointers to the variable: dereference implicitly
	for base.GoT != nil {
		p, ok := base.GoT.Underlying().(*types.Pointer)
		if !ok {
			break
		}
		_, ptrToPtr := p.Elem().Underlying().(*types.Pointer)
		_, ptrToIface := p.Elem().Underlying().(*types.Interface)
		if !ptrToPtr && !ptrToIface {
			break
		}
		b := e.rv(base)
		base = Val{Addr: b.T, GoT: p.Elem()}
	}
	// pseudo-fields on slices
	if !base.isLv() || base.GoT != nil {
		// fallthrough below
	}
	// struct datatype rvalue
	if !base.isLv() && base.GoT != nil {
		if st, ok := base.GoT.Underlying().(*types.Struct); ok {
			for i := 0; i < st.NumFields(); i++ {
				if st.Field(i).Name() == name {
					dt := e.u().structDatatype(base.GoT)
					return Val{T: fmt.Sprintf("(%s_f%d %s)", dt, i, base.T), Sort: e.u().sortOf(st.Field(i).Type()), GoT: st.Field(i).Type()}
				}
			}
		}
	}
	// slice header pseudo fields
	if base.GoT != nil {
		if _, ok := base.GoT.Underlying().(*types.Slice); ok {
			b := e.rv(base)
			switch name {
			case "arr":
				return Val{T: "(s_arr " + b.T + ")", Sort: "Loc"}
			case "off":
				return Val{T: "(s_off " + b.T + ")", Sort: "Int"}
			case "cap":
				return Val{T: "(s_cap " + b.T + ")", Sort: "Int"}
			case "len":
				return Val{T: "(s_len " + b.T + ")", Sort: "Int"}
			}
		}
		if _, ok := base.GoT.Underlying().(*types.Interface); ok {
			b := e.rv(base)
			if owner := namedOwner(base.GoT); owner != "" {
				if g, ok := e.g.prog.specs.Ghosts[owner+"."+name]; ok {
					k := e.u().ghostKind(g.Type)
					return Val{Addr: fmt.Sprintf("(fld (i_val %s) %s)", b.T, smtI(int64(g.ID))), GKind: k}
				}
			}
			switch name {
			case "typ":
				return Val{T: "(i_typ " + b.T + ")", Sort: "Int"}
			case "val":
				return Val{T: "(i_val " + b.T + ")", Sort: "Loc"}
			}
		}
	}
	// ghost fields that exist on every location ("ghost *.name : type")
	if gg, ok := e.g.prog.specs.Ghosts["*."+name]; ok {
		b := base
		if !b.isLv() || b.GoT != nil {
			b = e.rv(base)
		}
		if b.Sort == "Loc" {
			k := e.u().ghostKind(gg.Type)
			return Val{Addr: fmt.Sprintf("(fld %s %s)", b.T, smtI(int64(gg.ID))), GKind: k}
		}
		if b.Sort == "Slice" {
			k := e.u().ghostKind(gg.Type)
			return Val{Addr: fmt.Sprintf("(fld (s_arr %s) %s)", b.T, smtI(int64(gg.ID))), GKind: k}
		}
	}
	// determine the address of the struct
	var addr string
	var st types.Type
	if base.isLv() && base.GoT != nil {
		if _, ok := base.GoT.Underlying().(*types.Struct); ok {
			addr, st = base.Addr, base.GoT
		}
	}
	if addr == "" {
		b := e.rv(base)
		if b.Sort != "Loc" || b.GoT == nil {
			fail("cannot select field %s of non-pointer (sort %s)", name, b.Sort)
		}
		p, ok := b.GoT.Underlying().(*types.Pointer)
		if !ok {
			fail("cannot select field %s of %s", name, b.GoT)
		}
		addr, st = b.T, p.Elem()
	}
	// ghost field?
	if owner := namedOwner(st); owner != "" {
		if g, ok := e.g.prog.specs.Ghosts[owner+"."+name]; ok {
			k := e.u().ghostKind(g.Type)
			return Val{Addr: fmt.Sprintf("(fld %s %s)", addr, smtI(int64(g.ID))), GKind: k}
		}
	}
	s, ok := st.Underlying().(*types.Struct)
	if !ok {
		fail("field %s: %s is not a struct", name, st)
	}
	for i := 0; i < s.NumFields(); i++ {
		if s.Field(i).Name() == name {
			return Val{Addr: fmt.Sprintf("(fld %s %d)", addr, e.u().fieldID(st, i)), GoT: s.Field(i).Type()}
		}
	}
	// promoted through embedded fields
	for i := 0; i < s.NumFields(); i++ {
		if s.Field(i).Embedded() {
			inner := Val{Addr: fmt.Sprintf("(fld %s %d)", addr, e.u().fieldID(st, i)), GoT: s.Field(i).Type()}
			if v, ok := e.tryField(inner, name); ok {
				return v
			}
		}
	}
	fail("no field %s in %s", name, st)
	return Val{}
}

func (e *Env) tryField(b Val, name string) (v Val, ok bool) {
	defer func() {
		if r := recover(); r != nil {
			if _, is := r.(trErr); is {
				ok = false
				return
			}
			panic(r)
		}
	}()
	return e.field(b, name), true
}


func (e *Env) unifyNil(a, b Val) (Val, Val) {
	nilOf := func(o Val) Val {
		switch o.Sort {
		case "Loc":
			return Val{T: "nilloc", Sort: "Loc"}
		case "Iface":
			return Val{T: "nilif", Sort: "Iface"}
		case "Slice":
			return Val{T: "nilslice", Sort: "Slice"}
		case "(Seq Int)":
			return Val{T: "emptyseq", Sort: "(Seq Int)"}
		}
		fail("nil compared with sort %s", o.Sort)
		return Val{}
	}
	if a.Sort == "Nil" && b.Sort != "Nil" {
		a = nilOf(b)
	}
	if b.Sort == "Nil" && a.Sort != "Nil" {
		b = nilOf(a)
	}
	return a, b
}

func (e *Env) binop(x *Expr) Val {
	op := x.Name
	switch op {
	case "&&", "||", "==>", "<==>":
		a, b := e.trBool(x.Args[0]), e.trBool(x.Args[1])
		m := map[string]string{"&&": "and", "||": "or", "==>": "=>", "<==>": "="}
		return Val{T: "(" + m[op] + " " + a + " " + b + ")", Sort: "Bool"}
	case "++":
		return Val{T: "(seq.++ " + e.trSeq(x.Args[0]) + " " + e.trSeq(x.Args[1]) + ")", Sort: "(Seq Int)"}
	case "==", "!=":
		a, b := e.tr(x.Args[0]), e.tr(x.Args[1])
		var t string
		if (seqLike(a) && b.Sort != "Nil" || seqLike(b) && a.Sort != "Nil") || (seqLike(a) && seqLike(b)) {
			t = "(= " + e.asSeq(a) + " " + e.asSeq(b) + ")"
		} else if seqLike(a) && b.Sort == "Nil" {
			t = "(= " + e.asSeq(a) + " emptyseq)"
		} else if seqLike(b) && a.Sort == "Nil" {
			t = "(= " + e.asSeq(b) + " emptyseq)"
		} else {
			a, b = e.rv(a), e.rv(b)
			a, b = e.unifyNil(a, b)
			if a.Sort != b.Sort {
				fail("comparison of different sorts %s / %s in %s", a.Sort, b.Sort, x)
			}
			t = "(= " + a.T + " " + b.T + ")"
		}
		if op == "!=" {
			t = "(not " + t + ")"
		}
		return Val{T: t, Sort: "Bool"}
	case "<", "<=", ">", ">=":
		return Val{T: "(" + op + " " + e.trInt(x.Args[0]) + " " + e.trInt(x.Args[1]) + ")", Sort: "Bool"}
	case "+", "-", "*":
		a := e.tr(x.Args[0])
		if op == "+" && seqLike(a) {
			return Val{T: "(seq.++ " + e.asSeq(a) + " " + e.trSeq(x.Args[1]) + ")", Sort: "(Seq Int)"}
		}
		return Val{T: "(" + op + " " + e.asInt(a) + " " + e.trInt(x.Args[1]) + ")", Sort: "Int"}
	case "/":
		return Val{T: "(div " + e.trInt(x.Args[0]) + " " + e.trInt(x.Args[1]) + ")", Sort: "Int"}
	case "%":
		return Val{T: "(mod " + e.trInt(x.Args[0]) + " " + e.trInt(x.Args[1]) + ")", Sort: "Int"}
	}
	fail("unknown operator %s", op)
	return Val{}
}

var wrapBuiltins = map[string][2]string{
	"u8": {"wrapu", "256"}, "s8": {"wraps", "256"}, "u16": {"wrapu", "65536"}, "s16": {"wraps", "65536"},
	"u32": {"wrapu", "4294967296"}, "s32": {"wraps", "4294967296"},
	"u64": {"wrapu", "18446744073709551616"}, "s64": {"wraps", "18446744073709551616"},
}

func (e *Env) call(x *Expr) Val {
	name := x.Name
	if w, ok := wrapBuiltins[name]; ok && len(x.Args) == 1 {
		return Val{T: "(" + w[0] + " " + e.trInt(x.Args[0]) + " " + w[1] + ")", Sort: "Int"}
	}
	switch name {
	case "len":
		a := e.tr(x.Args[0])
		if seqLike(a) {
			if a.isLv() || a.Sort == "(Seq Int)" {
				return Val{T: "(seq.len " + e.asSeq(a) + ")", Sort: "Int"}
			}
			return Val{T: "(s_len " + a.T + ")", Sort: "Int"}
		}
		b := e.rv(a)
		if b.Sort == "Slice" {
			return Val{T: "(s_len " + b.T + ")", Sort: "Int"}
		}
		if b.Sort == "Loc" && b.GoT != nil {
			if m, ok := b.GoT.Underlying().(*types.Map); ok {
				return Val{T: e.mapLen(b, m), Sort: "Int"}
			}
		}
		fail("len of %s", x.Args[0])
	case "cap":
		b := e.rv(e.tr(x.Args[0]))
		return Val{T: "(s_cap " + b.T + ")", Sort: "Int"}
	case "hdr":
		b := e.rv(e.tr(x.Args[0]))
		return Val{T: b.T, Sort: "Slice", GoT: nil}
	case "bytes":
		// bytes(s): the content window of byte slice s, as an lvalue (for modifies) or a sequence
		b := e.rv(e.tr(x.Args[0]))
		if b.Sort != "Slice" {
			fail("bytes() of non-slice")
		}
		return Val{Addr: "(s_arr " + b.T + ")", Win: &window{arr: "(s_arr " + b.T + ")", off: "(s_off " + b.T + ")", n: "(s_len " + b.T + ")"}}
	case "prefixof":
		// prefixof(p, s): sequence p is a prefix of sequence s (native seq.prefixof)
		return Val{T: "(seq.prefixof " + e.asSeq(e.tr(x.Args[0])) + " " + e.asSeq(e.tr(x.Args[1])) + ")", Sort: "Bool"}
	case "ifaceof":
		// ifaceof(v, "int32"): the interface value that boxing v (of the named basic type) yields
		if len(x.Args) != 2 || x.Args[1].Op != "str" {
			fail("usage: ifaceof(<value>, \"<basic type>\")")
		}
		var bt types.Type
		for _, t := range types.Typ {
			if t.Name() == x.Args[1].Str {
				bt = t
			}
		}
		if bt == nil {
			fail("ifaceof: unknown basic type %s", x.Args[1].Str)
		}
		v := e.rv(e.tr(x.Args[0]))
		box, unbox := e.g.boxFns(v.Sort)
		if !strings.Contains(v.T, "q!") && !strings.Contains(v.T, "dummy!") && e.g.lines != nil {
			e.g.assume(fmt.Sprintf("(= (%s (%s %s)) %s)", unbox, box, v.T, v.T))
		}
		return Val{T: fmt.Sprintf("(mkiface %d (%s %s))", e.u().typeID(bt), box, v.T), Sort: "Iface"}
	case "ival":
		// ival(i): the pointer-like payload of an interface value (channel, pointer, map)
		b := e.rv(e.tr(x.Args[0]))
		if b.Sort != "Iface" {
			fail("ival of non-interface")
		}
		return Val{T: "(i_val " + b.T + ")", Sort: "Loc"}
	case "contains":
		// contains(s, t): t occurs in s as a contiguous subsequence
		return Val{T: "(seq.contains " + e.asSeq(e.tr(x.Args[0])) + " " + e.asSeq(e.tr(x.Args[1])) + ")", Sort: "Bool"}
	case "indexof":
		// indexof(s, t): offset of the first occurrence of t in s, -1 if none
		return Val{T: "(seq.indexof " + e.asSeq(e.tr(x.Args[0])) + " " + e.asSeq(e.tr(x.Args[1])) + " 0)", Sort: "Int"}
	case "suffixof":
		return Val{T: "(seq.suffixof " + e.asSeq(e.tr(x.Args[0])) + " " + e.asSeq(e.tr(x.Args[1])) + ")", Sort: "Bool"}
	case "min":
		return Val{T: "(imin " + e.trInt(x.Args[0]) + " " + e.trInt(x.Args[1]) + ")", Sort: "Int"}
	case "max":
		return Val{T: "(imax " + e.trInt(x.Args[0]) + " " + e.trInt(x.Args[1]) + ")", Sort: "Int"}
	case "fresh":
		// fresh(p): p was allocated during the call (between old and current state)
		b := e.rv(e.tr(x.Args[0]))
		obj := ""
		switch b.Sort {
		case "Loc":
			obj = "(l_obj " + b.T + ")"
		case "Slice":
			obj = "(l_obj (s_arr " + b.T + "))"
		default:
			fail("fresh() of sort %s", b.Sort)
		}
		if e.old == nil {
			fail("fresh() needs an old state")
		}
		return Val{T: "(and (<= " + e.old.A + " " + obj + ") (< " + obj + " " + e.cur.A + "))", Sort: "Bool"}
	case "loopfresh":
		// loopfresh(k, x): x was allocated after loop k was entered
		if len(x.Args) != 2 || x.Args[0].Op != "int" {
			fail("usage: loopfresh(<loop ordinal>, x)")
		}
		ap, ok := e.vars["$loopApre"+x.Args[0].Int.String()]
		if !ok {
			fail("loopfresh(%s, ..): that loop has not been entered at this point", x.Args[0].Int)
		}
		b := e.rv(e.tr(x.Args[1]))
		obj := "(l_obj " + b.T + ")"
		if b.Sort == "Slice" {
			obj = "(l_obj (s_arr " + b.T + "))"
		}
		return Val{T: "(<= " + ap.T + " " + obj + ")", Sort: "Bool"}
	case "cell_int", "cell_string", "cell_bool", "cell_i32":
		b := e.rv(e.tr(x.Args[0]))
		if b.Sort != "Loc" {
			fail("%s needs a location", name)
		}
		var t types.Type
		switch name {
		case "cell_int":
			t = types.Typ[types.Int]
		case "cell_string":
			t = types.Typ[types.String]
		case "cell_bool":
			t = types.Typ[types.Bool]
		case "cell_i32":
			t = types.Typ[types.Int32]
		}
		return Val{Addr: b.T, GoT: t}
	case "istype", "cast":
		// istype(x, "*T") / cast(x, "*T"): dynamic type test / projection of an interface value
		b := e.rv(e.tr(x.Args[0]))
		isLoc := name == "cast" && b.Sort == "Loc" // a ghost location read as a pointer of the named type
		if (b.Sort != "Iface" && !isLoc) || len(x.Args) != 2 || x.Args[1].Op != "str" {
			fail("usage: %s(<interface value>, \"*T\")", name)
		}
		tn := x.Args[1].Str
		if isLoc && strings.HasPrefix(tn, "map[") {
			// a ghost location read as a map of the written type (universe key/value types only)
			tv, err := types.Eval(token.NewFileSet(), e.pkg, token.NoPos, tn)
			if err != nil {
				fail("cast: %v", err)
			}
			return Val{T: b.T, Sort: "Loc", GoT: tv.Type}
		}
		ptr := strings.HasPrefix(tn, "*")
		tn = strings.TrimPrefix(tn, "*")
		if e.pkg == nil {
			fail("%s: no package scope", name)
		}
		obj := e.pkg.Scope().Lookup(tn)
		if i := strings.LastIndex(tn, "."); i > 0 {
			// qualified: the named type of an imported package (by package name)
			for _, imp := range e.pkg.Imports() {
				if imp.Name() == tn[:i] {
					obj = imp.Scope().Lookup(tn[i+1:])
				}
			}
		}
		tobj, ok := obj.(*types.TypeName)
		if !ok {
			fail("%s: unknown type %s", name, tn)
		}
		var t types.Type = tobj.Type()
		if ptr {
			t = types.NewPointer(t)
		}
		if name == "istype" {
			return Val{T: fmt.Sprintf("(= (i_typ %s) %d)", b.T, e.u().typeID(t)), Sort: "Bool"}
		}
		if !ptr {
			fail("cast supports pointer types only")
		}
		if isLoc {
			return Val{T: b.T, Sort: "Loc", GoT: t}
		}
		return Val{T: "(i_val " + b.T + ")", Sort: "Loc", GoT: t}
	case "atentry":
		// atentry(k, e): the value e had when loop k was entered
		if len(x.Args) != 2 || x.Args[0].Op != "int" {
			fail("usage: atentry(<loop ordinal>, e)")
		}
		ee, ok := e.g.loopEntryEnv[int(x.Args[0].Int.Int64())]
		if !ok {
			fail("atentry(%s, ..): that loop has not been entered at this point", x.Args[0].Int)
		}
		ee = ee.child()
		for n, bv := range e.vars {
			if strings.HasPrefix(bv.T, "q!") {
				ee.vars[n] = bv // variables bound by an enclosing quantifier keep their meaning
			}
		}
		v := ee.tr(x.Args[1])
		if seqLike(v) && (v.GoT == nil || !isByteSlice(v.GoT)) {
			return Val{T: ee.asSeq(v), Sort: "(Seq Int)"}
		}
		return ee.rv(v)
	case "ints":
		// ints(x): the elements of the integer slice x as a sequence of integers
		if len(x.Args) != 1 {
			fail("usage: ints(<slice of integers>)")
		}
		b := e.rv(e.tr(x.Args[0]))
		if b.Sort != "Slice" || b.GoT == nil {
			fail("ints() needs a slice of integers")
		}
		sl, ok := b.GoT.Underlying().(*types.Slice)
		if !ok || !isInteger(sl.Elem()) || isByteLike(sl.Elem()) {
			fail("ints() needs a slice of (non-byte) integers, got %v", b.GoT)
		}
		if e.pure {
			fail("slice content in pure context")
		}
		k := e.g.scalarKind(sl.Elem())
		if e.g.u.heapSort(k) != "(Array Loc Int)" {
			fail("ints(): element kind %s is not an integer heap", k)
		}
		return Val{T: "(ints " + e.g.heap(e.cur, k) + " " + b.T + ")", Sort: "(Seq Int)"}
	case "visited":
		// visited(n, k): key k has been produced by the n-th map range of the function (source order)
		if len(x.Args) != 2 || x.Args[0].Op != "int" {
			fail("usage: visited(<ordinal of the map range>, key)")
		}
		rs := e.g.mapRanges()
		n := int(x.Args[0].Int.Int64())
		if n < 0 || n >= len(rs) {
			fail("visited(%d, ..): the function has %d map range loops", n, len(rs))
		}
		loc, have := e.g.mrSeen[rs[n]]
		if !have {
			fail("visited(%d, ..): that range has not been entered at this point", n)
		}
		m := rs[n].X.Type().Underlying().(*types.Map)
		dk := e.g.seenKind(m)
		kv := e.tr(x.Args[1])
		kt := e.rv(kv).T
		if seqLike(kv) {
			kt = e.asSeq(kv)
		}
		return Val{T: "(select (select " + e.g.heap(e.cur, dk) + " " + loc + ") " + kt + ")", Sort: "Bool"}
	case "mapcells":
		// mapcells(m): the whole content of map m (a modifies item)
		b := e.rv(e.tr(x.Args[0]))
		if b.Sort != "Loc" || b.GoT == nil {
			fail("mapcells() needs a map")
		}
		if _, ok := b.GoT.Underlying().(*types.Map); !ok {
			fail("mapcells() needs a map")
		}
		return Val{Addr: b.T, MapCells: true, GoT: b.GoT}
	case "addr":
		// addr(x): the address of the variable, field or element x (what &x yields in the program)
		if len(x.Args) != 1 {
			fail("usage: addr(<lvalue>)")
		}
		v := e.tr(x.Args[0])
		if !v.isLv() || v.Addr == "" || v.GKind != "" || v.Win != nil || v.MapCells || v.Root {
			fail("addr() needs a variable that lives in memory, a field or a slice element")
		}
		var pt types.Type
		if v.GoT != nil {
			pt = types.NewPointer(v.GoT)
		}
		return Val{T: v.Addr, Sort: "Loc", GoT: pt}
	case "objof":
		// objof(x): identity of the allocated object a pointer or slice refers to
		b := e.rv(e.tr(x.Args[0]))
		switch b.Sort {
		case "Slice":
			return Val{T: "(l_obj (s_arr " + b.T + "))", Sort: "Int"}
		case "Loc":
			return Val{T: "(l_obj " + b.T + ")", Sort: "Int"}
		}
		fail("objof() needs a pointer or slice")
	case "elems":
		// elems(x): all element cells of the array backing slice x (a modifies item)
		b := e.rv(e.tr(x.Args[0]))
		if b.Sort != "Slice" || b.GoT == nil {
			fail("elems() needs a slice")
		}
		return Val{Addr: "(s_arr " + b.T + ")", Root: true, GoT: b.GoT.Underlying().(*types.Slice).Elem()}
	case "allocated":
		b := e.rv(e.tr(x.Args[0]))
		obj := "(l_obj " + b.T + ")"
		if b.Sort == "Slice" {
			obj = "(l_obj (s_arr " + b.T + "))"
		}
		return Val{T: "(< " + obj + " " + e.cur.A + ")", Sort: "Bool"}
	case "validbytes":
		b := e.rv(e.tr(x.Args[0]))
		return Val{T: "(validbytes " + e.g.heap(e.cur, "bytes") + " " + b.T + ")", Sort: "Bool"}
	case "seqlen":
		return Val{T: "(seq.len " + e.trSeq(x.Args[0]) + ")", Sort: "Int"}
	case "isnil":
		b := e.rv(e.tr(x.Args[0]))
		_, n := e.unifyNil(b, Val{Sort: "Nil"})
		return Val{T: "(= " + b.T + " " + n.T + ")", Sort: "Bool"}
	case "haskey":
		b := e.rv(e.tr(x.Args[0]))
		m, ok := b.GoT.Underlying().(*types.Map)
		if !ok {
			fail("haskey of non-map")
		}
		return Val{T: e.mapHas(b, m, e.rv(e.tr(x.Args[1]))), Sort: "Bool"}
	case "select":
		a := e.rv(e.tr(x.Args[0]))
		k := e.rv(e.tr(x.Args[1]))
		kt := k.T
		if seqLike(k) {
			kt = e.asSeq(k)
		}
		return Val{T: "(select " + a.T + " " + kt + ")", Sort: arrayElemSort(a.Sort)}
	case "store":
		a := e.rv(e.tr(x.Args[0]))
		k := e.rv(e.tr(x.Args[1]))
		v := e.rv(e.tr(x.Args[2]))
		kt, vt := k.T, v.T
		if seqLike(k) {
			kt = e.asSeq(k)
		}
		if seqLike(v) {
			vt = e.asSeq(v)
		}
		return Val{T: "(store " + a.T + " " + kt + " " + vt + ")", Sort: a.Sort}
	}
	if pd, ok := e.g.prog.specs.Preds[name]; ok {
		if len(pd.Params) != len(x.Args) {
			fail("%s expects %d arguments", name, len(pd.Params))
		}
		n := e.child()
		for i, pn := range pd.Params {
			v := e.tr(x.Args[i])
			if !v.isLv() {
				v = e.rv(v)
			}
			n.vars[pn] = v
		}
		return n.tr(pd.Body)
	}
	if name == "f32to64" {
		return Val{T: "(f32to64 " + e.trInt(x.Args[0]) + ")", Sort: "Int"}
	}
	f, ok := e.g.prog.specs.Funs[name]
	if !ok {
		fail("unknown function %s", name)
	}
	if len(f.Params) != len(x.Args) {
		fail("%s expects %d arguments", name, len(f.Params))
	}
	var args []string
	for i, p := range f.Params {
		v := e.tr(x.Args[i])
		s := specSort(p.Type)
		switch s {
		case "(Seq Int)":
			args = append(args, e.asSeq(v))
		default:
			r := e.rv(v)
			if r.Sort == "Nil" {
				_, r = e.unifyNil(Val{Sort: s}, r)
			}
			if r.Sort != s {
				fail("argument %d of %s: expected %s, got %s", i, name, s, r.Sort)
			}
			args = append(args, r.T)
		}
	}
	if len(args) == 0 {
		return Val{T: "sf_" + name, Sort: specSort(f.Ret)}
	}
	return Val{T: "(sf_" + name + " " + strings.Join(args, " ") + ")", Sort: specSort(f.Ret)}
}
