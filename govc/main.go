package main

import (
	"strconv"
	"encoding/json"
	"flag"
	"fmt"
	"os"
	"path/filepath"
	"regexp"
	"sort"
	"strings"
	"sync"
	"time"
)

var noSlice = os.Getenv("GOVC_NO_SLICE") != ""

type KnownFinding struct {
	Property   string `json:"property"`
	Obligation string `json:"obligation"`
	What       string `json:"what"`
	Status     string `json:"status"` // open | fixed
	Commit     string `json:"commit,omitempty"`
	InputClass string `json:"input_class,omitempty"`
}

type FnReport struct {
	Key         string
	Err         string
	Obligations []*Obligation
	Stats       *FnStats
}

func main() {
	if len(os.Args) < 2 {
		fmt.Fprintln(os.Stderr, "usage: govc check|dump ...")
		os.Exit(2)
	}
	switch os.Args[1] {
	case "check":
		os.Exit(cmdCheck(os.Args[2:]))
	default:
		fmt.Fprintln(os.Stderr, "unknown command", os.Args[1])
		os.Exit(2)
	}
}

func relevant(o *Obligation, c *Contract, prop string) bool {
	if prop == "" {
		return true
	}
	for _, inc := range propIncludes[prop] {
		if relevant(o, c, inc) {
			return true
		}
	}
	hasC := false
	for _, t := range o.Tags {
		if t == prop {
			return true
		}
		if len(t) >= 3 && t[0] == 'C' && t[1] >= '0' && t[1] <= '9' {
			hasC = true
		}
	}
	if hasC {
		return false
	}
	for _, t := range o.Tags {
		if t == "TERM" {
			return c.SafetyProps[prop] || c.TermProps[prop]
		}
		if t == "SAFETY" {
			return c.SafetyProps[prop]
		}
	}
	if o.Kind == "vacuity" {
		return c.Props[prop] || c.SafetyProps[prop] || c.TermProps[prop]
	}
	return c.Props[prop] || c.SafetyProps[prop] || c.TermProps[prop]
}

func cmdCheck(args []string) int {
	fs := flag.NewFlagSet("check", flag.ExitOnError)
	prop := fs.String("prop", "", "property id (Cxx); empty = all obligations")
	reportAs := fs.String("report-as", "", "property id named in VIOLATION lines and replay files (default: -prop); used when the obligations of one property are checked on behalf of another")
	tier := fs.String("tier", "quick", "quick|thorough")
	repo := fs.String("repo", "/repo", "repository root")
	verif := fs.String("verif", "/verif", "verif root")
	fnRe := fs.String("fn", "", "only functions whose key matches this regexp")
	oblRe := fs.String("obl", "", "only obligations whose name matches this regexp")
	timeout := fs.Int("timeout", 0, "per-obligation solver timeout (s)")
	verbose := fs.Bool("v", false, "verbose")
	noEvidence := fs.Bool("no-evidence", false, "do not write the evidence file")
	dirFilter := fs.String("dirs", "", "only load contract dirs matching this regexp")
	noReplay := fs.Bool("no-replay", false, "do not search counterexamples / replay failed obligations")
	fs.Parse(args)
	t0 := time.Now()
	if *timeout == 0 {
		*timeout = 10
		if *tier == "thorough" {
			*timeout = 60
		}
	}
	var only func(string) bool
	if *dirFilter != "" {
		re := regexp.MustCompile(*dirFilter)
		only = func(d string) bool { return re.MatchString(d) }
	} else if *prop != "" {
		only = propDirs(*repo, *prop)
	}
	prog, err := LoadProgram(*repo, filepath.Join(*verif, "specs"), only)
	if err != nil {
		fmt.Println("BROKEN: cannot load:", err)
		return 2
	}
	tLoad := time.Since(t0)
	var fre, ore *regexp.Regexp
	if *fnRe != "" {
		fre = regexp.MustCompile(*fnRe)
	}
	if *oblRe != "" {
		ore = regexp.MustCompile(*oblRe)
	}
	// select functions
	var keys []string
	for k, c := range prog.specs.Contracts {
		if c.Trusted && !c.ArgsOnly {
			continue
		}
		if len(c.Props) == 0 && len(c.SafetyProps) == 0 && len(c.TermProps) == 0 {
			// a contract that no property owns would be assumed by callers and checked by nobody
			fmt.Printf("BROKEN: the contract of %s is neither trusted nor tagged with a property: no check would ever verify it\n", k)
			os.Exit(2)
		}
		if *prop != "" && !c.Props[*prop] && !c.SafetyProps[*prop] && !c.TermProps[*prop] {
			inc := false
			for _, ip := range propIncludes[*prop] {
				if c.Props[ip] || c.SafetyProps[ip] || c.TermProps[ip] {
					inc = true
				}
			}
			if !inc {
				continue
			}
		}
		if fre != nil && !fre.MatchString(k) {
			continue
		}
		keys = append(keys, k)
	}
	sort.Strings(keys)
	var reports []*FnReport
	broken := false
	for _, k := range keys {
		fn, ok := prog.fns[k]
		rep := &FnReport{Key: k}
		reports = append(reports, rep)
		if !ok {
			rep.Err = "contract for a function that does not exist in the loaded packages"
			continue
		}
		g := newGen(prog, fn, prog.specs.Contracts[k])
		g.onlyProp = *prop
		if err := g.Run(); err != nil {
			rep.Err = err.Error()
			continue
		}
		rep.Stats = g.stats
		for _, o := range g.obls {
			if !relevant(o, g.con, *prop) {
				continue
			}
			if ore != nil && !ore.MatchString(o.Name) {
				continue
			}
			rep.Obligations = append(rep.Obligations, o)
		}
	}
	// lemmas
	lemRep := &FnReport{Key: "spec-lemmas"}
	for _, l := range prog.specs.Lemmas {
		if *prop != "" && !propMatch(l.Tags, *prop) {
			continue
		}
		if fre != nil && !fre.MatchString("lemma:"+l.Name) {
			continue
		}
		o, err := prog.lemmaObligation(l)
		if err != nil {
			lemRep.Err = err.Error()
			continue
		}
		if ore != nil && !ore.MatchString(o.Name) {
			continue
		}
		lemRep.Obligations = append(lemRep.Obligations, o)
	}
	if len(lemRep.Obligations) > 0 || lemRep.Err != "" {
		reports = append(reports, lemRep)
	}
	tGen := time.Since(t0) - tLoad

	// solve
	tmp, _ := os.MkdirTemp("", "govc-smt-")
	defer os.RemoveAll(tmp)
	smtDir := tmp
	if keepSMT {
		smtDir = filepath.Join(*verif, "replays", "smt")
		os.MkdirAll(smtDir, 0o755)
	}
	var all []*Obligation
	for _, r := range reports {
		all = append(all, r.Obligations...)
	}
	var wg sync.WaitGroup
	sem := make(chan struct{}, 6)
	for i, o := range all {
		wg.Add(1)
		go func(i int, o *Obligation) {
			defer wg.Done()
			sem <- struct{}{}
			defer func() { <-sem }()
			tObl := time.Now()
			defer func() {
				if *verbose && time.Since(tObl) > 4*time.Second {
					fmt.Printf("  slow %-70s %.1fs wall (%s)\n", o.Name, time.Since(tObl).Seconds(), o.Result.Solver)
				}
			}()
			to := time.Duration(*timeout) * time.Second
			if o.Expect == "sat" {
				to = 3 * time.Second
			}
			if o.Expect == "unsat" && (o.Kind == "frame" || o.Kind == "loop-frame") {
				// frame obligations are about locations, not about element values: first try
				// without the integer-quantified assumptions and the spec axioms (weaker context)
				var sb strings.Builder
				for _, l := range strings.Split(o.Query, "\n") {
					if strings.Contains(l, "(forall ((j Int))") || strings.Contains(l, "(forall ((q!") || strings.HasPrefix(l, "(assert (forall ((a!") {
						continue
					}
					sb.WriteString(l + "\n")
				}
				r := Solve(sb.String(), smtDir, fmt.Sprintf("f%04d_%s", i, sanitize(o.Name)), 8*time.Second, true)
				if r.Verdict == "unsat" {
					r.Solver += "/frame-slice"
					o.Result = r
				}
			}
			if o.Result.Verdict != "unsat" && o.Expect == "unsat" && !noSlice {
				if sq, ok := sliceQuery(o.Query); ok && len(sq) < len(o.Query)*3/4 {
					r := Solve(sq, smtDir, fmt.Sprintf("s%04d_%s", i, sanitize(o.Name)), 6*time.Second, true)
					if r.Verdict == "unsat" {
						r.Solver += "/sliced"
						o.Result = r
					}
				}
			}
			// loop-local: without the invariants of the loops this obligation does not belong to (what a later
			// part of the function needs from an earlier loop is normally restated by a cut assertion or by the
			// enclosing loop's own invariant); fewer assumptions, so a proof of this variant is a proof.
			// Second round: the most recent loop is kept as well, for the code that follows a loop.
			loopLocal := func(early bool) {
				if o.Result.Verdict == "unsat" || o.Expect != "unsat" || !strings.Contains(o.Query, " ; @loop:") {
					return
				}
				last := -1
				for _, l := range strings.Split(o.Query, "\n") {
					if k := strings.LastIndex(l, " ; @loop:"); k > 0 {
						if n, err := strconv.Atoi(strings.TrimSpace(l[k+len(" ; @loop:"):])); err == nil && n > last {
							last = n
						}
					}
				}
				type attempt struct {
					keepLast, dropLets bool
				}
				ats := []attempt{{false, false}, {false, true}, {true, false}, {true, true}}
				budget := 8 * time.Second
				if early {
					ats, budget = ats[:2], 5*time.Second
				}
				for ai, at := range ats {
					var sb strings.Builder
					dropped := false
					for _, l := range strings.Split(o.Query, "\n") {
						if k := strings.LastIndex(l, " ; @loop:"); k > 0 {
							n, _ := strconv.Atoi(strings.TrimSpace(l[k+len(" ; @loop:"):]))
							mine := at.keepLast && n == last
							for _, m := range o.InLoops {
								if m == n {
									mine = true
								}
							}
							if !mine {
								dropped = true
								continue
							}
						}
						if at.dropLets && strings.HasPrefix(l, "(assert (= let_") {
							continue
						}
						sb.WriteString(l + "\n")
					}
					if !dropped {
						return
					}
					if at.keepLast {
						for _, m := range o.InLoops {
							if m == last {
								return
							}
						}
					}
					r := Solve(sb.String(), smtDir, fmt.Sprintf("o%04d_%d%v_%s", i, ai, early, sanitize(o.Name)), budget, true)
					if r.Verdict == "unsat" {
						r.Solver += "/loop-local"
						o.Result = r
						return
					}
				}
			}
			if o.Result.Verdict != "unsat" && o.Expect == "unsat" && o.QueryInst != "" {
				r := Solve(o.QueryInst, smtDir, fmt.Sprintf("i%04d_%s", i, sanitize(o.Name)), 8*time.Second, true)
				if r.Verdict == "unsat" {
					r.Solver += "/instantiated"
					o.Result = r
				}
			}
			triedQuick := false
			if o.Result.Verdict != "unsat" && o.Expect == "unsat" && (strings.Contains(o.Query, "\n(assert (= let_") || (len(o.InLoops) > 0 && strings.Contains(o.Query, " ; @loop:"))) {
				// a short attempt on the full query first: most obligations need the let definitions
				// (and most loop obligations go through as they are)
				triedQuick = true
				r := Solve(o.Query, smtDir, fmt.Sprintf("q%04d_%s", i, sanitize(o.Name)), 4*time.Second, true)
				if r.Verdict == "unsat" {
					o.Result = r
				}
			}
			_ = triedQuick
			if len(o.InLoops) > 0 {
				loopLocal(true)
			}
			if o.Result.Verdict != "unsat" && o.Expect == "unsat" && strings.Contains(o.Query, "\n(assert (= let_") {
				// contract lets kept opaque: the definitions of the let constants are dropped (fewer
				// assumptions, so a proof of this variant is a proof of the obligation)
				var sb strings.Builder
				for _, l := range strings.Split(o.Query, "\n") {
					if strings.HasPrefix(l, "(assert (= let_") {
						continue
					}
					sb.WriteString(l + "\n")
				}
				r := Solve(sb.String(), smtDir, fmt.Sprintf("l%04d_%s", i, sanitize(o.Name)), 8*time.Second, true)
				if r.Verdict == "unsat" {
					r.Solver += "/opaque-lets"
					o.Result = r
				}
			}
			if o.Result.Verdict != "unsat" {
				o.Result = Solve(o.Query, smtDir, fmt.Sprintf("q%04d_%s", i, sanitize(o.Name)), to, o.Expect != "sat")
			}
			if o.Result.Verdict != "unsat" && o.Result.Verdict != "sat" {
				full := o.Result
				loopLocal(false)
				if o.Result.Verdict != "unsat" {
					o.Result = full
				}
			}
			switch {
			case o.Expect == "unsat" && o.Result.Verdict == "unsat":
				o.Status = "discharged"
			case o.Expect == "unsat" && o.Result.Verdict == "sat":
				o.Status = "failed"
			case o.Expect == "unsat":
				o.Status = "undecided"
			case o.Expect == "sat" && o.Result.Verdict == "unsat":
				o.Status = "vacuous"
			case o.Expect == "sat" && o.Result.Verdict == "sat":
				o.Status = "nonvacuous"
			default:
				o.Status = "nonvacuous-unconfirmed"
			}
		}(i, o)
	}
	wg.Wait()
	// Second chance for obligations that only timed out (no solver said sat or unknown-with-a-model): on a
	// loaded machine a query that normally takes a second can exceed the budget. At most a handful are retried,
	// two at a time, with twice the budget; if many obligations are undecided the tree is really broken
	// and a retry would only cost time.
	{
		var late []*Obligation
		for _, o := range all {
			if o.Expect == "unsat" && o.Status == "undecided" && (o.Result.Verdict == "timeout" || o.Result.Verdict == "unknown") {
				late = append(late, o)
			}
		}
		if len(late) > 0 && len(late) <= 8 {
			sem2 := make(chan struct{}, 2)
			var wg2 sync.WaitGroup
			for i, o := range late {
				wg2.Add(1)
				go func(i int, o *Obligation) {
					defer wg2.Done()
					sem2 <- struct{}{}
					defer func() { <-sem2 }()
					to := 2 * time.Duration(*timeout) * time.Second
					qs := []string{o.Query}
					if o.QueryInst != "" {
						qs = append(qs, o.QueryInst)
					}
					for k, q := range qs {
						r := Solve(q, smtDir, fmt.Sprintf("r%04d_%d_%s", i, k, sanitize(o.Name)), to, true)
						if r.Verdict == "unsat" {
							r.Solver += "/retry"
							o.Result = r
							o.Status = "discharged"
							return
						}
					}
				}(i, o)
			}
			wg2.Wait()
		}
	}
	tSolve := time.Since(t0) - tLoad - tGen

	// known findings
	known := loadKnown(filepath.Join(*verif, "known_findings.json"))
	// report
	nObl, nDis, nViol, nVac := 0, 0, 0, 0
	byBackend := map[string]int{}
	var solverTime float64
	var samples []map[string]any
	var slowest []map[string]any
	var violations []string
	var knownHit []string
	fnsUnder := []string{}
	uncontracted := map[string]int{}
	abstractions := map[string]int{}
	trusted := map[string]bool{}
	os.MkdirAll(filepath.Join(*verif, "replays"), 0o755)
	for _, r := range reports {
		if r.Err != "" {
			if r.Key == "spec-lemmas" {
				fmt.Printf("BROKEN: %s: %s\n", r.Key, r.Err)
				broken = true
				continue
			}
			// The contract of a function under this property can no longer be interpreted over the
			// current source (a name it speaks about is gone, a construct left the supported subset, ...).
			// On the unchanged tree this never happens (the check is kept green), so it is the result of a
			// change to the function: the obligation "the contract applies" fails; no input can be given.
			o := &Obligation{Name: shortKey(r.Key) + "/contract-applies", Fn: r.Key, Kind: "contract", Desc: "the contract can be interpreted over the current source: " + r.Err, Status: "undecided", Expect: "unsat"}
			o.Result.Verdict = "error"
			o.Result.Output = r.Err
			nObl++
			nViol++
			rp := writeReplay(*verif, firstNonEmpty(*reportAs, *prop), o, nil, nil)
			pid := firstNonEmpty(*reportAs, *prop)
			if pid == "" {
				pid = "ANY"
			}
			line := fmt.Sprintf("VIOLATION property=%s replay=%s no-failing-input-found", pid, rp)
			violations = append(violations, line)
			fmt.Printf("  FAIL %-70s undecided (contract does not apply)\n        %s\n", o.Name, r.Err)
			fmt.Println(line)
			continue
		}
		if r.Key != "spec-lemmas" {
			fnsUnder = append(fnsUnder, shortKey(r.Key))
		}
		if r.Stats != nil {
			for k, v := range r.Stats.Uncontracted {
				uncontracted[k] += v
			}
			for k, v := range r.Stats.Abstractions {
				abstractions[k] += v
			}
			for k := range r.Stats.TrustedUsed {
				trusted[k] = true
			}
		}
		for _, o := range r.Obligations {
			if o.Expect == "sat" {
				if *verbose {
					fmt.Printf("  probe %-69s %s %s %.2fs\n", o.Name, o.Status, o.Result.Solver, o.Result.Time)
				}
				if o.Status == "vacuous" {
					nVac++
					fmt.Printf("BROKEN: vacuity probe failed: %s (%s)\n", o.Name, o.Desc)
					broken = true
				}
				continue
			}
			nObl++
			solverTime += o.Result.Time
			if len(samples) < 12 {
				samples = append(samples, map[string]any{"obligation": o.Name, "kind": o.Kind, "what": o.Desc, "verdict": o.Result.Verdict, "solver": o.Result.Solver, "smt_bytes": len(o.Query)})
			}
			if o.Result.Time > 1.0 {
				slowest = append(slowest, map[string]any{"obligation": o.Name, "time_s": o.Result.Time, "solver": o.Result.Solver})
			}
			if o.Status == "discharged" {
				nDis++
				byBackend[o.Result.Solver]++
				if *verbose {
					fmt.Printf("  ok   %-70s %s %.2fs\n", o.Name, o.Result.Solver, o.Result.Time)
				}
				continue
			}
			// failed or undecided
			matched := false
			for _, k := range known {
				if k.Status == "open" && k.Obligation == o.Name && (k.Property == *prop || *prop == "") {
					matched = true
					knownHit = append(knownHit, o.Name)
					fmt.Printf("KNOWN-FINDING: property=%s %s [%s]\n", k.Property, k.What, o.Name)
				}
			}
			if matched {
				nDis++ // accounted for; reported separately in evidence
				continue
			}
			nViol++
			var model cexModel
			var rr *replayResult
			if !*noReplay {
				model, rr = prog.replayObligation(o, smtDir)
			}
			rp := writeReplay(*verif, firstNonEmpty(*reportAs, *prop), o, model, rr)
			suffix := ""
			if rr == nil || !rr.Confirmed {
				suffix = " no-failing-input-found"
			}
			pid := firstNonEmpty(*reportAs, *prop)
			if pid == "" {
				pid = "ANY"
			}
			line := fmt.Sprintf("VIOLATION property=%s replay=%s%s", pid, rp, suffix)
			violations = append(violations, line)
			fmt.Printf("  FAIL %-70s %s (%s) %s\n        %s\n", o.Name, o.Status, o.Result.Verdict, o.Pos, o.Desc)
			fmt.Println(line)
		}
	}
	wall := time.Since(t0).Seconds()
	fmt.Printf("govc: property=%s tier=%s functions=%d obligations=%d discharged=%d violations=%d vacuity-failures=%d load=%.1fs gen=%.1fs solve=%.1fs\n",
		*prop, *tier, len(fnsUnder), nObl, nDis, nViol, nVac, tLoad.Seconds(), tGen.Seconds(), tSolve.Seconds())
	if *verbose {
		for _, k := range sortedKeys(uncontracted) {
			fmt.Printf("  uncontracted call: %s x%d\n", k, uncontracted[k])
		}
		for _, k := range sortedKeys(abstractions) {
			fmt.Printf("  abstraction: %s x%d\n", k, abstractions[k])
		}
	}
	if nObl == 0 {
		fmt.Println("BROKEN: no obligations generated")
		broken = true
	}
	if *prop != "" && !*noEvidence && fre == nil && ore == nil {
		var assumptions []string
		assumptions = append(assumptions,
			"machine arithmetic: exact (wrap-around modelled on mathematical integers), int/uint are 64-bit",
			"scheduling: each function is verified as one sequential thread; go statements, channel operations and select are abstracted (counted in abstractions_hit)",
			"allocation failure is not modelled: make/new within proved bounds succeed",
			"logging and formatting calls are effect-free on modelled state",
			"library functions are replaced by the trusted contracts in /verif/specs/lib.gvs (listed in trusted_contracts_used)",
			"unsafe []int8<->[]uint8 casts are modelled as sharing one byte array; floats are bit patterns",
			"callees under contract do not retain pointer arguments beyond the call",
			"go/ssa (x/tools v0.29.0) faithfully represents the source; SMT solvers z3 4.8.12, z3 5.1.0, cvc5 1.0 are sound")
		var tl []string
		for k := range trusted {
			tl = append(tl, k)
		}
		sort.Strings(tl)
		cov := map[string]any{
			"obligations": nObl, "discharged": nDis,
			"checker_cmd":  "bin/govc check -prop " + *prop + " -tier " + *tier,
			"trusted_base": []string{"go/packages+go/ssa v0.29.0", "govc VC generator (/verif/govc)", "z3 4.8.12 / z3 5.1.0 / cvc5 1.0 (portfolio, first unsat wins)", "spec functions in /verif/specs/*.gvs", "trusted library contracts in /verif/specs/lib.gvs"},
			"functions_under_contract": fnsUnder, "by_backend": byBackend, "solver_time_s": solverTime,
			"samples": samples, "slowest": slowest, "abstractions_hit": abstractions, "uncontracted_calls": uncontracted,
			"trusted_contracts_used": tl, "known_findings_matched": knownHit, "vacuity_probes_failed": nVac,
			"timings_s": map[string]float64{"load": tLoad.Seconds(), "vcgen": tGen.Seconds(), "solve": tSolve.Seconds()},
		}
		ev := map[string]any{"property_id": *prop, "tier": *tier, "seed": seedFromEnv(), "level": "proof", "coverage": cov,
			"assumptions": assumptions, "wall_s": wall, "violations": nViol}
		data, _ := json.MarshalIndent(ev, "", " ")
		os.MkdirAll(filepath.Join(*verif, "evidence"), 0o755)
		os.WriteFile(filepath.Join(*verif, "evidence", *prop+".json"), data, 0o644)
	}
	if broken {
		return 2
	}
	if nViol > 0 {
		return 1
	}
	return 0
}

func seedFromEnv() int {
	var s int
	fmt.Sscanf(os.Getenv("VERIF_SEED"), "%d", &s)
	return s
}

func loadKnown(path string) []KnownFinding {
	data, err := os.ReadFile(path)
	if err != nil {
		return nil
	}
	var out struct {
		Findings []KnownFinding `json:"findings"`
	}
	if err := json.Unmarshal(data, &out); err != nil {
		fmt.Println("BROKEN: known_findings.json:", err)
		return nil
	}
	return out.Findings
}

func writeReplay(verif, prop string, o *Obligation, model cexModel, rr *replayResult) string {
	p := filepath.Join(verif, "replays", sanitize(prop+"_"+o.Name)+".json")
	rp := map[string]any{"property": prop, "obligation": o.Name, "function": o.Fn, "kind": o.Kind, "clause": o.Desc, "position": o.Pos,
		"verdict": o.Result.Verdict, "solver": o.Result.Solver, "solver_output": truncate(o.Result.Output, 8000), "status": o.Status,
		"counterexample_input": model, "replay_on_real_code": rr}
	data, _ := json.MarshalIndent(rp, "", " ")
	os.WriteFile(p, data, 0o644)
	os.WriteFile(strings.TrimSuffix(p, ".json")+".smt2", []byte(o.Query), 0o644)
	return p
}

func truncate(s string, n int) string {
	if len(s) > n {
		return s[:n] + "...[truncated]"
	}
	return s
}

// propDirs restricts package loading to the directories whose contract files mention the property.
func propDirs(repo, prop string) func(string) bool {
	dirs, _ := findContractDirs(repo)
	want := map[string]bool{}
	for d, files := range dirs {
		for _, f := range files {
			data, _ := os.ReadFile(f)
			if strings.Contains(string(data), prop) {
				want[d] = true
			}
		}
	}
	return func(d string) bool { return want[d] }
}

func (p *Program) lemmaObligation(l *Lemma) (o *Obligation, err error) {
	defer func() {
		if r := recover(); r != nil {
			if te, ok := r.(trErr); ok {
				err = fmt.Errorf("lemma %s: %s", l.Name, te.msg)
				return
			}
			panic(r)
		}
	}()
	g := &Gen{prog: p, u: p.u, declared: map[string]bool{}}
	env := &Env{g: g, vars: map[string]Val{}, pure: true}
	t := env.trBool(l.E)
	var sb strings.Builder
	if l.Induct != "" {
		// induction over the recursion of the spec functions: the hypothesis is the
		// statement for the _lim symbols (the recursive occurrences after one unfolding).
		sb.WriteString("(set-logic ALL)\n" + smtPrelude)
		for _, d := range p.u.structDecl {
			sb.WriteString(d + "\n")
		}
		sb.WriteString(p.specBase)
		for i := 0; i < l.Index; i++ {
			sb.WriteString(p.indAxioms[i])
		}
		hyp := t
		for _, m := range p.specs.FunOrder {
			if p.specs.Funs[m].Rec {
				hyp = strings.ReplaceAll(hyp, "(sf_"+m+" ", "(sf_"+m+"_lim ")
			}
		}
		sb.WriteString("(assert " + hyp + ") ; induction hypothesis\n")
	} else {
		sb.WriteString(g.header())
	}
	sb.WriteString("; lemma " + l.Name + "\n(assert (not " + t + "))\n(check-sat)\n")
	return &Obligation{Name: "lemma/" + l.Name, Fn: "spec", Kind: "lemma", Tags: l.Tags, Desc: l.E.String(), Query: sb.String(), Expect: "unsat"}, nil
}

func firstNonEmpty(a, b string) string {
	if a != "" {
		return a
	}
	return b
}
