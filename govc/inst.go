package main

// Generator-side quantifier instantiation.
//
// When a goal has the form  forall j:Int. G(j)  the generator skolemises it (fresh constant sk) and
// adds, for every assumption of the context, the instances of its positively occurring
// single-variable integer quantifiers at a small set of terms derived from sk (sk itself, sk
// shifted by the lengths of appended slices, and the images of sk under recorded permutations).
// Instances are logical consequences of the assumptions they come from, so adding them is sound;
// the solver no longer depends on E-matching through store chains to find them.

import (
	"strings"
)


// intBinders returns the bound variables of a quantifier node if all of them are of sort Int.
func intBinders(n *sx) ([]string, bool) {
	if len(n.list) != 3 || len(n.list[1].list) == 0 || len(n.list[1].list) > 2 {
		return nil, false
	}
	var vs []string
	for _, b := range n.list[1].list {
		if len(b.list) != 2 || b.list[1].atom != "Int" {
			return nil, false
		}
		vs = append(vs, b.list[0].atom)
	}
	return vs, true
}

// tuples enumerates the k-tuples over terms (k is 1 or 2; for pairs the number of terms is capped).
func tuples(terms []string, k int) [][]string {
	if k == 1 {
		var out [][]string
		for _, t := range terms {
			out = append(out, []string{t})
		}
		return out
	}
	if len(terms) > 9 {
		terms = terms[:9]
	}
	var out [][]string
	for _, a := range terms {
		for _, b := range terms {
			out = append(out, []string{a, b})
		}
	}
	return out
}

// replaceIntForalls returns the formula with every positively occurring (forall ((x Int)) body)
// replaced by the conjunction of body[x:=t] for t in terms. ok=false if nothing was replaced.
func replaceIntForalls(n *sx, positive bool, terms []string) (string, bool) {
	if n.list == nil {
		return n.atom, false
	}
	if len(n.list) == 0 {
		return "()", false
	}
	head := n.list[0].atom
	switch head {
	case "forall":
		if vs, ok := intBinders(n); positive && ok {
			body := n.list[2]
			if body.list != nil && len(body.list) >= 2 && body.list[0].atom == "!" {
				body = body.list[1]
			}
			bs := body.String()
			var insts []string
			for _, tu := range tuples(terms, len(vs)) {
				inst := bs
				// simultaneous substitution: first to placeholders (a term may mention a bound name)
				for i, v := range vs {
					inst = substSym(inst, v, "q!!"+string(rune('a'+i)))
				}
				for i := range vs {
					inst = substSym(inst, "q!!"+string(rune('a'+i)), tu[i])
				}
				insts = append(insts, inst)
			}
			if len(insts) == 0 {
				return n.String(), false
			}
			if len(insts) == 1 {
				return insts[0], true
			}
			return "(and " + strings.Join(insts, " ") + ")", true
		}
		return n.String(), false
	case "exists", "let", "!":
		return n.String(), false
	case "not":
		if len(n.list) == 2 {
			s, ok := replaceIntForalls(n.list[1], !positive, terms)
			return "(not " + s + ")", ok
		}
	case "=>":
		if len(n.list) == 3 {
			a, ok1 := replaceIntForalls(n.list[1], !positive, terms)
			b, ok2 := replaceIntForalls(n.list[2], positive, terms)
			return "(=> " + a + " " + b + ")", ok1 || ok2
		}
	case "and", "or":
		var parts []string
		any := false
		for _, c := range n.list[1:] {
			s, ok := replaceIntForalls(c, positive, terms)
			parts = append(parts, s)
			any = any || ok
		}
		return "(" + head + " " + strings.Join(parts, " ") + ")", any
	}
	return n.String(), false
}

// replaceIntExists returns the formula with every positively occurring (exists ((x Int)) body) replaced by
// the disjunction of body[x:=t] for t in terms. The result implies the original formula, so it may be used
// as a (stronger) goal: proving it proves the obligation.
func replaceIntExists(n *sx, positive bool, terms []string) (string, bool) {
	if n.list == nil {
		return n.atom, false
	}
	if len(n.list) == 0 {
		return "()", false
	}
	head := n.list[0].atom
	switch head {
	case "exists":
		if positive && len(n.list) == 3 && len(n.list[1].list) == 1 && len(n.list[1].list[0].list) == 2 && n.list[1].list[0].list[1].atom == "Int" {
			v := n.list[1].list[0].list[0].atom
			body := n.list[2]
			if body.list != nil && len(body.list) >= 2 && body.list[0].atom == "!" {
				body = body.list[1]
			}
			bs := body.String()
			var insts []string
			for _, t := range terms {
				insts = append(insts, substSym(bs, v, t))
			}
			if len(insts) == 1 {
				return insts[0], true
			}
			return "(or " + strings.Join(insts, " ") + ")", true
		}
		return n.String(), false
	case "forall", "let", "!":
		return n.String(), false
	case "not":
		if len(n.list) == 2 {
			s, ok := replaceIntExists(n.list[1], !positive, terms)
			return "(not " + s + ")", ok
		}
	case "=>":
		if len(n.list) == 3 {
			a, ok1 := replaceIntExists(n.list[1], !positive, terms)
			b, ok2 := replaceIntExists(n.list[2], positive, terms)
			return "(=> " + a + " " + b + ")", ok1 || ok2
		}
	case "and", "or":
		var parts []string
		any := false
		for _, c := range n.list[1:] {
			s, ok := replaceIntExists(c, positive, terms)
			parts = append(parts, s)
			any = any || ok
		}
		return "(" + head + " " + strings.Join(parts, " ") + ")", any
	}
	return n.String(), false
}

// instantiateContext produces instance assertions for the context lines.
func (g *Gen) instantiateContext(terms []string) []string {
	var out []string
	for _, l := range g.lines {
		if !strings.HasPrefix(l, "(assert ") || !strings.Contains(l, "(forall ((") || !strings.Contains(l, " Int)") {
			continue
		}
		if k := strings.LastIndex(l, " ; @loop:"); k > 0 {
			l = l[:k] // the loop tag of an assumption line (see Gen.assume)
		}
		xs := parseSx(l)
		if len(xs) != 1 || len(xs[0].list) != 2 {
			continue
		}
		s, ok := replaceIntForalls(xs[0].list[1], true, terms)
		if ok {
			out = append(out, "(assert "+s+")")
		}
	}
	return out
}

// skolemiseGoal: if the goal (or a conjunct / consequent of it) is an integer-quantified formula,
// replace the quantifier by a fresh constant and return the instantiation terms.
func (g *Gen) skolemiseGoal(formula string) (goal string, decls []string, terms []string, ok bool) {
	xs := parseSx(formula)
	if len(xs) != 1 {
		return formula, nil, nil, false
	}
	var rec func(n *sx, positive bool) string
	rec = func(n *sx, positive bool) string {
		if n.list == nil || len(n.list) == 0 {
			return n.String()
		}
		switch n.list[0].atom {
		case "forall":
			if vs, ok := intBinders(n); positive && ok {
				body := n.list[2]
				if body.list != nil && len(body.list) >= 2 && body.list[0].atom == "!" {
					body = body.list[1]
				}
				bs := body.String()
				for _, v := range vs {
					sk := g.fresh("sk")
					decls = append(decls, "(declare-const "+sk+" Int)")
					terms = append(terms, sk)
					bs = substSym(bs, v, sk)
				}
				return bs
			}
			return n.String()
		case "=>":
			if len(n.list) == 3 {
				return "(=> " + n.list[1].String() + " " + rec(n.list[2], positive) + ")"
			}
		case "and":
			var parts []string
			for _, c := range n.list[1:] {
				parts = append(parts, rec(c, positive))
			}
			return "(and " + strings.Join(parts, " ") + ")"
		}
		return n.String()
	}
	goal = rec(xs[0], true)
	return goal, decls, terms, len(terms) > 0
}

// hintAntecedents: in a goal of the form (=> A B) (possibly nested in the consequent) the integer-quantified
// hypotheses inside A are joined with their instances at the given terms: (=> (and A A[inst]) B). A implies its
// instances, so the goal is equivalent; the solver just no longer has to find the instances by E-matching.
func hintAntecedents(goal string, terms []string) string {
	xs := parseSx(goal)
	if len(xs) != 1 {
		return goal
	}
	var rec func(n *sx) string
	rec = func(n *sx) string {
		if n.list == nil || len(n.list) == 0 {
			return n.String()
		}
		switch n.list[0].atom {
		case "=>":
			if len(n.list) == 3 {
				a := n.list[1]
				as := a.String()
				if strings.Contains(as, "(forall ((") {
					if inst, ok := replaceIntForalls(a, true, terms); ok {
						as = "(and " + as + " " + inst + ")"
					}
				}
				return "(=> " + as + " " + rec(n.list[2]) + ")"
			}
		case "and":
			var parts []string
			for _, c := range n.list[1:] {
				parts = append(parts, rec(c))
			}
			return "(and " + strings.Join(parts, " ") + ")"
		}
		return n.String()
	}
	return rec(xs[0])
}
