package main

import (
	"fmt"
	"go/token"
	"go/types"
	"os"
	"path/filepath"
	"sort"
	"strings"

	"golang.org/x/tools/go/packages"
	"golang.org/x/tools/go/ssa"
	"golang.org/x/tools/go/ssa/ssautil"
)

type Program struct {
	specs       *Specs
	u           *Universe
	fset        *token.FileSet
	pkgs        []*packages.Package
	ssa         *ssa.Program
	fns         map[string]*ssa.Function
	specPrelude string
	specOpaque  map[string][2]string // spec function -> (define line, declare line)
	specBase    string
	specCex     string
	indAxioms   []string
	sizes       types.Sizes
	repo        string
	contractFiles []string
	constGlobals  map[*ssa.Global]*ssa.Const // package-level variables that are only initialised, never reassigned
}

// findContractDirs returns directories under root that contain *_verif.go files.
func findContractDirs(root string) (map[string][]string, error) {
	out := map[string][]string{}
	err := filepath.Walk(root, func(p string, info os.FileInfo, err error) error {
		if err != nil {
			return nil
		}
		if info.IsDir() {
			n := info.Name()
			if n == ".git" || n == "vendor" || n == "node_modules" {
				return filepath.SkipDir
			}
			return nil
		}
		if strings.HasSuffix(p, "_verif.go") {
			out[filepath.Dir(p)] = append(out[filepath.Dir(p)], p)
		}
		return nil
	})
	return out, err
}

// moduleRoot finds the directory with go.mod at or above dir.
func moduleRoot(dir string) string {
	for d := dir; d != "/" && d != "."; d = filepath.Dir(d) {
		if _, err := os.Stat(filepath.Join(d, "go.mod")); err == nil {
			return d
		}
	}
	return dir
}

func LoadProgram(repo string, specDir string, onlyDirs func(dir string) bool) (*Program, error) {
	p := &Program{specs: NewSpecs(), u: NewUniverse(), fns: map[string]*ssa.Function{}, repo: repo}
	// spec files
	gvs, _ := filepath.Glob(filepath.Join(specDir, "*.gvs"))
	sort.Strings(gvs)
	for _, f := range gvs {
		if err := p.specs.LoadFile(f); err != nil {
			return nil, err
		}
	}
	dirs, err := findContractDirs(repo)
	if err != nil {
		return nil, err
	}
	// group by module root
	byMod := map[string][]string{}
	for d := range dirs {
		if onlyDirs != nil && !onlyDirs(d) {
			continue
		}
		m := moduleRoot(d)
		byMod[m] = append(byMod[m], d)
	}
	p.fset = token.NewFileSet()
	var all []*packages.Package
	var mods []string
	for m := range byMod {
		mods = append(mods, m)
	}
	sort.Strings(mods)
	for _, m := range mods {
		var pats []string
		sort.Strings(byMod[m])
		for _, d := range byMod[m] {
			rel, _ := filepath.Rel(m, d)
			pats = append(pats, "./"+rel)
		}
		cfg := &packages.Config{
			Mode:       packages.NeedName | packages.NeedFiles | packages.NeedCompiledGoFiles | packages.NeedImports | packages.NeedDeps | packages.NeedTypes | packages.NeedSyntax | packages.NeedTypesInfo | packages.NeedTypesSizes | packages.NeedModule,
			Dir:        m,
			Fset:       p.fset,
			BuildFlags: []string{"-tags=verif"},
			Env:        append(os.Environ(), "GOFLAGS=-mod=mod", "GOPROXY=off", "GOSUMDB=off", "GOTOOLCHAIN=local"),
		}
		pkgs, err := packages.Load(cfg, pats...)
		if err != nil {
			return nil, fmt.Errorf("loading %v in %s: %v", pats, m, err)
		}
		for _, pk := range pkgs {
			for _, e := range pk.Errors {
				return nil, fmt.Errorf("package %s: %v", pk.PkgPath, e)
			}
		}
		all = append(all, pkgs...)
	}
	p.pkgs = all
	if len(all) > 0 {
		p.sizes = all[0].TypesSizes
	}
	if p.sizes == nil {
		p.sizes = types.SizesFor("gc", "amd64")
	}
	prog, spkgs := ssautil.AllPackages(all, ssa.GlobalDebug)
	prog.Build()
	p.ssa = prog
	_ = spkgs
	// contract comments: of every contract directory, also those whose packages are loaded only
	// as dependencies (their contracts are needed at call sites)
	var cdirs []string
	for d := range dirs {
		cdirs = append(cdirs, d)
	}
	sort.Strings(cdirs)
	for _, d := range cdirs {
		m := moduleRoot(d)
		mp := modulePath(m)
		rel, _ := filepath.Rel(m, d)
		pkgPath := mp
		if rel != "." {
			pkgPath = mp + "/" + filepath.ToSlash(rel)
		}
		files := dirs[d]
		sort.Strings(files)
		for _, f := range files {
			if _, err := p.specs.LoadContractComments(f, pkgPath); err != nil {
				return nil, err
			}
			p.contractFiles = append(p.contractFiles, f)
		}
	}
	// index functions of the loaded (root) packages, including methods and closures
	for _, pk := range all {
		sp := prog.Package(pk.Types)
		if sp == nil {
			continue
		}
		var add func(fn *ssa.Function)
		add = func(fn *ssa.Function) {
			if fn == nil {
				return
			}
			p.fns[fnKey(fn)] = fn
			for _, a := range fn.AnonFuncs {
				add(a)
			}
		}
		for _, m := range sp.Members {
			switch x := m.(type) {
			case *ssa.Function:
				add(x)
			case *ssa.Type:
				for _, t := range []types.Type{x.Type(), types.NewPointer(x.Type())} {
					ms := prog.MethodSets.MethodSet(t)
					for i := 0; i < ms.Len(); i++ {
						fn := prog.MethodValue(ms.At(i))
						if fn != nil && fn.Synthetic == "" {
							add(fn)
						}
					}
				}
			}
		}
	}
	p.findConstGlobals()
	if err := p.buildSpecPrelude(); err != nil {
		return nil, err
	}
	return p, nil
}

// buildSpecPrelude emits SMT definitions for constants-free spec functions and axioms.
func (p *Program) buildSpecPrelude() (err error) {
	defer func() {
		if r := recover(); r != nil {
			if te, ok := r.(trErr); ok {
				err = fmt.Errorf("spec: %s", te.msg)
				return
			}
			if e, ok := r.(error); ok {
				err = e
				return
			}
			panic(r)
		}
	}()
	var sb strings.Builder
	sb.WriteString("(declare-fun zeros (Int) (Seq Int))\n")
	sb.WriteString("(assert (forall ((n Int)) (! (=> (>= n 0) (= (seq.len (zeros n)) n)) :pattern ((zeros n)))))\n")
	sb.WriteString("(assert (forall ((n Int) (k Int)) (! (=> (and (<= 0 k) (< k n)) (= (seq.nth (zeros n) k) 0)) :pattern ((seq.nth (zeros n) k)))))\n")
	// ints(h, s): the elements of an integer slice s as a sequence, read from the heap h of its element kind
	sb.WriteString("(declare-fun ints ((Array Loc Int) Slice) (Seq Int))\n")
	sb.WriteString("(assert (forall ((h (Array Loc Int)) (s Slice)) (! (=> (>= (s_len s) 0) (= (seq.len (ints h s)) (s_len s))) :pattern ((ints h s)))))\n")
	sb.WriteString("(assert (forall ((h (Array Loc Int)) (s Slice) (k Int)) (! (=> (and (<= 0 k) (< k (s_len s))) (= (seq.nth (ints h s) k) (select h (elm (s_arr s) (+ (s_off s) k))))) :pattern ((seq.nth (ints h s) k)))))\n")
	g := &Gen{prog: p, u: p.u, declared: map[string]bool{}}
	sig := func(f *SpecFun) (string, string) {
		var ps, as []string
		for _, prm := range f.Params {
			ps = append(ps, "("+"a!"+prm.Name+" "+specSort(prm.Type)+")")
			as = append(as, "a!"+prm.Name)
		}
		return strings.Join(ps, " "), strings.Join(as, " ")
	}
	sorts := func(f *SpecFun) string {
		var ss []string
		for _, prm := range f.Params {
			ss = append(ss, specSort(prm.Type))
		}
		return strings.Join(ss, " ")
	}
	// declarations of recursive and uninterpreted functions first
	for _, n := range p.specs.FunOrder {
		f := p.specs.Funs[n]
		if f.Rec || f.Uninter {
			sb.WriteString(fmt.Sprintf("(declare-fun sf_%s (%s) %s)\n", f.Name, sorts(f), specSort(f.Ret)))
			if f.Rec {
				sb.WriteString(fmt.Sprintf("(declare-fun sf_%s_lim (%s) %s)\n", f.Name, sorts(f), specSort(f.Ret)))
			}
		}
	}
	body := func(f *SpecFun) string {
		env := &Env{g: g, vars: map[string]Val{}, pure: true}
		for _, prm := range f.Params {
			env.vars[prm.Name] = Val{T: "a!" + prm.Name, Sort: specSort(prm.Type)}
		}
		v := env.tr(f.Body)
		want := specSort(f.Ret)
		if want == "(Seq Int)" {
			return env.asSeq(v)
		}
		v = env.rv(v)
		if v.Sort != want {
			fail("function %s: body has sort %s, declared %s", f.Name, v.Sort, want)
		}
		return v.T
	}
	for _, n := range p.specs.FunOrder {
		f := p.specs.Funs[n]
		if f.Rec || f.Uninter {
			continue
		}
		ps, _ := sig(f)
		def := fmt.Sprintf("(define-fun sf_%s (%s) %s %s)\n", f.Name, ps, specSort(f.Ret), body(f))
		sb.WriteString(def)
		if p.specOpaque == nil {
			p.specOpaque = map[string][2]string{}
		}
		p.specOpaque[f.Name] = [2]string{def, fmt.Sprintf("(declare-fun sf_%s (%s) %s)\n", f.Name, sorts(f), specSort(f.Ret))}
	}
	for _, n := range p.specs.FunOrder {
		f := p.specs.Funs[n]
		if !f.Rec {
			continue
		}
		ps, as := sig(f)
		b := body(f)
		// limited-function encoding: recursive occurrences inside bodies use the _lim symbol
		for _, m := range p.specs.FunOrder {
			if p.specs.Funs[m].Rec {
				b = strings.ReplaceAll(b, "(sf_"+m+" ", "(sf_"+m+"_lim ")
			}
		}
		ax := fmt.Sprintf("(assert (forall (%s) (! (= (sf_%s %s) (sf_%s_lim %s)) :pattern ((sf_%s %s)))))\n", ps, f.Name, as, f.Name, as, f.Name, as) +
			fmt.Sprintf("(assert (forall (%s) (! (= (sf_%s %s) %s) :pattern ((sf_%s %s)))))\n", ps, f.Name, as, b, f.Name, as)
		sb.WriteString(ax)
		if p.specOpaque == nil {
			p.specOpaque = map[string][2]string{}
		}
		p.specOpaque[f.Name] = [2]string{ax, ""}
	}
	for _, a := range p.specs.Axioms {
		env := &Env{g: g, vars: map[string]Val{}, pure: true}
		sb.WriteString("(assert " + env.trBool(a.E) + ") ; axiom " + a.Name + "\n")
	}
	p.specBase = sb.String()
	// definitional prelude for counterexample search and concrete evaluation
	{
		var cb strings.Builder
		cb.WriteString("(define-fun-rec zeros ((n Int)) (Seq Int) (ite (<= n 0) (as seq.empty (Seq Int)) (seq.++ (seq.unit 0) (zeros (- n 1)))))\n")
		cb.WriteString("(define-fun-rec ints ((h (Array Loc Int)) (s Slice)) (Seq Int) (ite (<= (s_len s) 0) (as seq.empty (Seq Int)) (seq.++ (ints h (mkslice (s_arr s) (s_off s) (- (s_len s) 1) (s_cap s))) (seq.unit (select h (elm (s_arr s) (+ (s_off s) (- (s_len s) 1))))))))\n")
		for _, n := range p.specs.FunOrder {
			f := p.specs.Funs[n]
			if f.Uninter {
				ps, _ := sig(f)
				if f.CexBody != nil {
					env := &Env{g: g, vars: map[string]Val{}, pure: true}
					for _, prm := range f.Params {
						env.vars[prm.Name] = Val{T: "a!" + prm.Name, Sort: specSort(prm.Type)}
					}
					v := env.tr(f.CexBody)
					t := ""
					if specSort(f.Ret) == "(Seq Int)" {
						t = env.asSeq(v)
					} else {
						t = env.rv(v).T
					}
					cb.WriteString(fmt.Sprintf("(define-fun sf_%s (%s) %s %s)\n", f.Name, ps, specSort(f.Ret), t))
				} else {
					cb.WriteString(fmt.Sprintf("(declare-fun sf_%s (%s) %s)\n", f.Name, sorts(f), specSort(f.Ret)))
				}
			}
		}
		// non-recursive functions that do not depend on recursive ones come first; to keep it
		// simple everything else goes into one mutually recursive group.
		var heads, bodies []string
		for _, n := range p.specs.FunOrder {
			f := p.specs.Funs[n]
			if f.Uninter {
				continue
			}
			ps, _ := sig(f)
			heads = append(heads, fmt.Sprintf("(sf_%s (%s) %s)", f.Name, ps, specSort(f.Ret)))
			bodies = append(bodies, body(f))
		}
		if len(heads) > 0 {
			cb.WriteString("(define-funs-rec (" + strings.Join(heads, "\n ") + ")\n (" + strings.Join(bodies, "\n ") + "))\n")
		}
		p.specCex = cb.String()
	}
	for _, l := range p.specs.IndLemmas {
		env := &Env{g: g, vars: map[string]Val{}, pure: true}
		t := env.trBool(l.E)
		p.indAxioms = append(p.indAxioms, "(assert "+t+") ; inductive lemma "+l.Name+" (proved as obligation lemma/"+l.Name+")\n")
		sb.WriteString(p.indAxioms[len(p.indAxioms)-1])
	}
	p.specPrelude = sb.String()
	return nil
}

// pkgByName finds a loaded package (or an import of from) by its name.
func (p *Program) pkgByName(name string, from *types.Package) *types.Package {
	if from != nil {
		for _, im := range from.Imports() {
			if im.Name() == name {
				return im
			}
		}
	}
	for _, pk := range p.pkgs {
		if pk.Types != nil && pk.Types.Name() == name {
			return pk.Types
		}
	}
	// any package of the program (transitive imports), shortest path first: a contract may name a
	// standard-library value such as io.EOF even when the package under contract does not import it
	var best *types.Package
	if p.ssa != nil {
		for _, sp := range p.ssa.AllPackages() {
			if sp.Pkg != nil && sp.Pkg.Name() == name {
				if best == nil || len(sp.Pkg.Path()) < len(best.Path()) {
					best = sp.Pkg
				}
			}
		}
	}
	return best
}

// modulePath reads the module path from go.mod in dir.
func modulePath(dir string) string {
	data, err := os.ReadFile(filepath.Join(dir, "go.mod"))
	if err != nil {
		return ""
	}
	for _, l := range strings.Split(string(data), "\n") {
		l = strings.TrimSpace(l)
		if strings.HasPrefix(l, "module ") {
			return strings.TrimSpace(strings.TrimPrefix(l, "module "))
		}
	}
	return ""
}

// findConstGlobals finds package-level variables of the loaded packages whose only store is a
// constant in the package initialiser: their loads are treated as that constant (assumption:
// users of the framework do not reassign them; listed in the evidence).
func (p *Program) findConstGlobals() {
	p.constGlobals = map[*ssa.Global]*ssa.Const{}
	stores := map[*ssa.Global]int{}
	initVal := map[*ssa.Global]*ssa.Const{}
	var visit func(fn *ssa.Function)
	visit = func(fn *ssa.Function) {
		for _, b := range fn.Blocks {
			for _, ins := range b.Instrs {
				if st, ok := ins.(*ssa.Store); ok {
					if g, ok := st.Addr.(*ssa.Global); ok {
						stores[g]++
						if c, isC := st.Val.(*ssa.Const); isC && fn.Name() == "init" {
							initVal[g] = c
						}
					}
				}
				// address taken: could be written through a pointer
				for _, op := range ins.Operands(nil) {
					if g, ok := (*op).(*ssa.Global); ok {
						switch x := ins.(type) {
						case *ssa.UnOp:
						case *ssa.Store:
							if x.Addr != ssa.Value(g) {
								stores[g] += 2
							}
						default:
							stores[g] += 2
						}
					}
				}
			}
		}
		for _, a := range fn.AnonFuncs {
			visit(a)
		}
	}
	for _, pk := range p.pkgs {
		sp := p.ssa.Package(pk.Types)
		if sp == nil {
			continue
		}
		for _, m := range sp.Members {
			if fn, ok := m.(*ssa.Function); ok {
				visit(fn)
			}
			if t, ok := m.(*ssa.Type); ok {
				for _, tt := range []types.Type{t.Type(), types.NewPointer(t.Type())} {
					ms := p.ssa.MethodSets.MethodSet(tt)
					for i := 0; i < ms.Len(); i++ {
						if fn := p.ssa.MethodValue(ms.At(i)); fn != nil && fn.Synthetic == "" {
							visit(fn)
						}
					}
				}
			}
		}
	}
	for g, c := range initVal {
		if stores[g] == 1 {
			p.constGlobals[g] = c
		}
	}
}
