package main

import (
	"os"
	"fmt"
	"go/ast"
	"go/token"
	"go/types"
	"sort"
	"strings"

	"golang.org/x/tools/go/ssa"
)

func newGen(prog *Program, fn *ssa.Function, con *Contract) *Gen {
	return &Gen{prog: prog, u: prog.u, fn: fn, topFn: fn, key: fnKey(fn), con: con,
		declared: map[string]bool{}, vals: map[ssa.Value]Val{}, blockR: map[*ssa.BasicBlock]string{},
		endSt: map[*ssa.BasicBlock]*State{}, counters: map[string]int{}, closures: map[ssa.Value]*ssa.MakeClosure{},
		deferR: map[*ssa.Defer]string{},
		stats:  &FnStats{Uncontracted: map[string]int{}, Abstractions: map[string]int{}, TrustedUsed: map[string]bool{}}}
}

// resultNames gives the names under which results are visible in ensures clauses.
func resultNames(sig *types.Signature) [][]string {
	res := sig.Results()
	out := make([][]string, res.Len())
	for i := 0; i < res.Len(); i++ {
		v := res.At(i)
		var ns []string
		if v.Name() != "" && v.Name() != "_" {
			ns = append(ns, v.Name())
		}
		ns = append(ns, fmt.Sprintf("result%d", i))
		if res.Len() == 1 {
			ns = append(ns, "result")
		}
		if i == res.Len()-1 && v.Name() == "" && types.Identical(v.Type(), types.Universe.Lookup("error").Type()) {
			ns = append(ns, "err")
		}
		out[i] = ns
	}
	return out
}

func (g *Gen) envFor(vars map[string]Val, cur, old *State) *Env {
	var pkg *types.Package
	if g.fn.Pkg != nil {
		pkg = g.fn.Pkg.Pkg
	}
	return &Env{g: g, vars: vars, cur: cur, old: old, pkg: pkg}
}

func (g *Gen) trClause(env *Env, e *Expr, what string) (t string, err error) {
	defer func() {
		if r := recover(); r != nil {
			if te, ok := r.(trErr); ok {
				err = fmt.Errorf("%s: %s: %s", g.key, what, te.msg)
				return
			}
			panic(r)
		}
	}()
	return env.trBool(e), nil
}

func (g *Gen) mustClause(env *Env, e *Expr, what string) string {
	t, err := g.trClause(env, e, what)
	if err != nil {
		panic(err)
	}
	return t
}

func propMatch(tags []string, prop string) bool {
	if prop == "" {
		return true
	}
	for _, t := range tags {
		if t == prop {
			return true
		}
		for _, inc := range propIncludes[prop] {
			if t == inc {
				return true
			}
		}
	}
	return false
}

// propIncludes: a check of the key property also checks (and may rely on) everything tagged
// with the listed properties. C03 (struct codecs) is stated on top of C02 (primitive codec):
// every C02 obligation is re-discharged in a C03 run, so a broken primitive is a C03 violation too.
var propIncludes = map[string][]string{"C03": {"C02"}}

// setupEntry declares parameters, lets, witnesses and assumes the precondition.
func (g *Gen) setupEntry() *State {
	fn := g.fn
	g.u.kindSort["bytes"] = "(Seq Int)"
	st := &State{H: map[string]string{}, A: "A0"}
	g.declare("A0", "Int")
	g.assume("(> A0 0)")
	g.penv = map[string]Val{}
	for _, p := range fn.Params {
		v := g.freshVal(p, st, "true")
		g.penv[p.Name()] = v
	}
	for _, p := range fn.FreeVars {
		v := g.freshVal(p, st, "true")
		g.penv[p.Name()] = v
		if v.Sort == "Loc" {
			g.assume("(not (= " + v.T + " nilloc))") // a captured variable is the address of a live cell
		}
	}
	g.old = st.clone()
	env := g.envFor(g.penv, st, g.old)
	for _, l := range g.con.Lets {
		v := env.tr(l.E)
		if seqLike(v) {
			v = Val{T: env.asSeq(v), Sort: "(Seq Int)"}
		} else {
			v = env.rv(v)
		}
		n := "let_" + sanitize(l.Name)
		g.define(n, v.Sort, v.T)
		g.penv[l.Name] = Val{T: n, Sort: v.Sort, GoT: v.GoT}
	}
	for i, c := range g.con.Requires {
		g.assume(g.mustClause(env, c.E, fmt.Sprintf("requires#%d", i)))
	}
	if g.con.ClosedHeap {
		h := g.heap(st, "ptr")
		g.assume("(forall ((l Loc)) (! (< (l_obj (select " + h + " l)) A0) :pattern ((select " + h + " l))))")
		g.stats.Abstractions["assumed:closed-heap-at-entry"]++
	}
	// witnesses for counterexample extraction: scalar parameters and declared witness expressions
	g.wits = nil
	for _, p := range fn.Params {
		v := g.penv[p.Name()]
		switch {
		case v.Sort == "Int" || v.Sort == "Bool" || v.Sort == "(Seq Int)":
			g.wits = append(g.wits, witness{p.Name(), v.T, v.Sort})
		case v.Sort == "Slice" && isByteSlice(p.Type()):
			g.wits = append(g.wits, witness{p.Name(), env.asSeq(v), "(Seq Int)"})
		}
	}
	for _, w := range g.con.Witness {
		v := env.tr(w.E)
		if seqLike(v) {
			g.wits = append(g.wits, witness{w.Name, env.asSeq(v), "(Seq Int)"})
		} else {
			r := env.rv(v)
			g.wits = append(g.wits, witness{w.Name, r.T, r.Sort})
		}
	}
	return st
}

// Run generates all obligations of the function.
func (g *Gen) Run() (err error) {
	defer func() {
		if r := recover(); r != nil {
			switch x := r.(type) {
			case unsupported:
				err = fmt.Errorf("%s: out of subset: %s", g.key, x.msg)
			case trErr:
				err = fmt.Errorf("%s: contract error: %s", g.key, x.msg)
			case error:
				err = fmt.Errorf("%s: %v", g.key, x)
			default:
				panic(r)
			}
		}
	}()
	fn := g.fn
	if len(fn.Blocks) == 0 {
		return fmt.Errorf("%s: no body", g.key)
	}
	st := g.setupEntry()
	g.probe(shortKey(g.key)+"/vacuity:requires", "true", "precondition and type assumptions are satisfiable")

	g.findLoops()
	order := rpo(fn, isBackEdge)
	for _, b := range order {
		if b == fn.Recover {
			continue
		}
		g.block(b, st)
	}
	g.exit()
	// a site clause that matched no instruction states nothing: the code it speaks about is gone
	if g.con != nil && len(g.inlining) == 0 {
		for m, n := range g.con.SiteCount {
			g.siteOrd(m, nil)
			if have := len(g.siteSeen["site:"+m]); have != n {
				return fmt.Errorf("%s: the contract accounts for %d instructions matching %q, the function has %d", g.key, n, m, have)
			}
		}
		for _, sc := range g.con.Sites {
			g.siteOrd(sc.Match, nil)
			if len(g.siteSeen["site:"+sc.Match]) <= sc.Ord {
				return fmt.Errorf("%s: site clause %s#%d matches no instruction of the function", g.key, sc.Match, sc.Ord)
			}
		}
	}
	return nil
}

func (g *Gen) block(b *ssa.BasicBlock, entry *State) {
	g.curBlock = b
	var st *State
	rname := g.pfx + fmt.Sprintf("r_%d", b.Index)
	var edges []string
	var preds []*ssa.BasicBlock
	if b.Index == 0 {
		er := g.entryR
		if er == "" {
			er = "true"
		}
		g.define(rname, "Bool", er)
		st = entry
	} else {
		var sts []*State
		occ := map[*ssa.BasicBlock]int{}
		for _, p := range b.Preds {
			k := occ[p]
			occ[p]++
			if isBackEdge(p, b) {
				edges = append(edges, "") // placeholder keeps phi edge indices aligned
				preds = append(preds, nil)
				continue
			}
			rp, ok := g.blockR[p]
			if !ok { // unreachable predecessor (e.g. recover block)
				edges = append(edges, "")
				preds = append(preds, nil)
				continue
			}
			// find the succ index of the k-th occurrence of b in p.Succs
			idx, seen := 0, 0
			for i, s := range p.Succs {
				if s == b {
					if seen == k {
						idx = i
						break
					}
					seen++
				}
			}
			en := g.pfx + fmt.Sprintf("e_%d_%d_%d", p.Index, b.Index, k)
			g.define(en, "Bool", "(and "+rp+" "+g.edgeCond(p, idx)+")")
			edges = append(edges, en)
			preds = append(preds, p)
			sts = append(sts, g.endSt[p])
		}
		var live []string
		for _, e := range edges {
			if e != "" {
				live = append(live, e)
			}
		}
		g.define(rname, "Bool", orTerms(live))
		if len(sts) == 0 {
			// only reachable through back edges?? treat as unreachable
			st = entry.clone()
		} else {
			st = g.mergeStates(live, sts)
		}
	}
	g.blockR[b] = rname

	// phi nodes
	li := g.loops[b]
	phiMerged := map[*ssa.Phi]string{}
	for _, ins := range b.Instrs {
		phi, ok := ins.(*ssa.Phi)
		if !ok {
			break
		}
		var t string
		for i := len(phi.Edges) - 1; i >= 0; i-- {
			if edges[i] == "" {
				continue
			}
			v := g.val(phi.Edges[i]).T
			if t == "" {
				t = v
			} else {
				t = "(ite " + edges[i] + " " + v + " " + t + ")"
			}
		}
		if t == "" {
			t = g.zeroTerm(phi.Type())
		}
		if li == nil {
			g.defVal(phi, t)
		} else {
			phiMerged[phi] = t
		}
	}
	if li != nil {
		g.loopHead(b, li, st, rname, phiMerged)
		st = li.headSt.clone()
	}
	for _, ins := range b.Instrs {
		if _, ok := ins.(*ssa.Phi); ok {
			continue
		}
		g.instr(b, ins, st, rname)
	}
	g.endSt[b] = st
	// back edges out of b
	occ := map[*ssa.BasicBlock]int{}
	for i, s := range b.Succs {
		k := occ[s]
		occ[s]++
		_ = k
		if isBackEdge(b, s) {
			g.backEdge(b, i, s, st, rname)
		}
	}
}

// nameAt resolves source variable names to values at a loop head.
func (g *Gen) loopEnv(li *loopInfo, st *State, phiVals map[*ssa.Phi]string) map[string]Val {
	vars := g.namesAt(li.head, 0)
	for _, l2 := range g.loops {
		if l2.preSt != nil {
			vars[fmt.Sprintf("$loopApre%d", l2.ord)] = Val{T: l2.preSt.A, Sort: "Int"}
		}
	}
	for _, phi := range li.phis {
		if phi.Comment != "" {
			if t, ok := phiVals[phi]; ok {
				vars[phi.Comment] = Val{T: t, Sort: g.u.sortOf(phi.Type()), GoT: phi.Type()}
			}
		}
	}
	return vars
}

// namesAt resolves source variable names to values just before instruction index upTo of block at.
// Candidates for a name are the SSA values that any DebugRef in the function associates with it,
// the phi nodes commented with it, and (for variables that live in memory) the Alloc commented
// with it. Among the candidates whose definition dominates the point, the latest definition wins;
// a memory-resident variable is always read through its cell.
func (g *Gen) namesAt(at *ssa.BasicBlock, upTo int) map[string]Val {
	vars := map[string]Val{}
	for k, v := range g.penv {
		vars[k] = v
	}
	type cand struct {
		v    Val
		rank [2]int
	}
	best := map[string]cand{}
	better := func(a, b [2]int) bool { return a[0] > b[0] || (a[0] == b[0] && a[1] > b[1]) }
	idxOf := func(ins ssa.Instruction) int {
		for i, x := range ins.Block().Instrs {
			if x == ins {
				return i
			}
		}
		return -1
	}
	// rank of a value's definition if it is available at the point, else ok=false
	avail := func(v ssa.Value) ([2]int, bool) {
		switch x := v.(type) {
		case *ssa.Parameter, *ssa.FreeVar, *ssa.Global, *ssa.Function:
			return [2]int{-1, 0}, true
		case *ssa.Const:
			return [2]int{-2, 0}, true
		case ssa.Instruction:
			b := x.Block()
			if b == nil {
				return [2]int{}, false
			}
			i := idxOf(x)
			if b == at {
				if i >= upTo {
					return [2]int{}, false
				}
				return [2]int{domDepth(b), i}, true
			}
			if b.Dominates(at) {
				return [2]int{domDepth(b), i}, true
			}
		}
		return [2]int{}, false
	}
	consider := func(name string, sv ssa.Value, asAddr bool) {
		rk, ok := avail(sv)
		if !ok {
			return
		}
		v, ok := g.valOpt(sv)
		if !ok {
			return
		}
		if asAddr {
			pt, isP := sv.Type().Underlying().(*types.Pointer)
			if !isP {
				return
			}
			v = Val{Addr: v.T, GoT: pt.Elem()}
			rk = [2]int{1 << 30, 0}
		}
		if o, have := best[name]; !have || better(rk, o.rank) {
			best[name] = cand{v, rk}
		}
	}
	for _, b := range g.fn.Blocks {
		for _, ins := range b.Instrs {
			switch x := ins.(type) {
			case *ssa.Alloc:
				if isSimpleIdent(x.Comment) && x.Comment != "varargs" && x.Comment != "slicelit" && x.Comment != "complit" && x.Comment != "makeslice" {
					consider(x.Comment, x, true)
				}
			case *ssa.Phi:
				if isSimpleIdent(x.Comment) && x.Comment != "rangeindex" {
					consider(x.Comment, x, false)
				}
			case *ssa.DebugRef:
				name := debugName(x)
				if name == "" {
					continue
				}
				if x.IsAddr {
					consider(name, x.X, true)
				} else {
					consider(name, x.X, false)
				}
			}
		}
	}
	for n, c := range best {
		vars[n] = c.v
	}
	return vars
}

func domDepth(b *ssa.BasicBlock) int {
	d := 0
	for x := b.Idom(); x != nil; x = x.Idom() {
		d++
	}
	return d
}

func debugName(x *ssa.DebugRef) string {
	if id, ok := x.Expr.(*ast.Ident); ok {
		if v, isVar := x.Object().(*types.Var); isVar && !v.IsField() && v.Pkg() != nil && v.Parent() != v.Pkg().Scope() {
			return id.Name
		}
	}
	return ""
}

func isSimpleIdent(s string) bool {
	if s == "" {
		return false
	}
	for i, r := range s {
		if !(r == '_' || r >= 'a' && r <= 'z' || r >= 'A' && r <= 'Z' || (i > 0 && r >= '0' && r <= '9')) {
			return false
		}
	}
	return true
}

func (g *Gen) valOpt(v ssa.Value) (x Val, ok bool) {
	defer func() {
		if r := recover(); r != nil {
			ok = false
		}
	}()
	return g.val(v), true
}

func (g *Gen) loopHead(b *ssa.BasicBlock, li *loopInfo, st *State, rname string, phiMerged map[*ssa.Phi]string) {
	li.preSt = st.clone()
	invs := g.con.LoopInv[li.ord]
	if g.con.ArgsOnly {
		if g.con.LoopNoFrame == nil {
			g.con.LoopNoFrame = map[int]bool{}
		}
		g.con.LoopNoFrame[li.ord] = true
	}
	if len(invs) == 0 && len(g.con.LoopDecr[li.ord]) == 0 && !g.isPlainRangeLoop(li) && !g.con.ArgsOnly {
		panic(fmt.Errorf("loop %d (block %d, %s) has no invariant", li.ord, b.Index, g.posOf(firstPos(b))))
	}
	li.preSt = st.clone()
	g.findRangeIndex(li)
	if li.rangePhi != nil {
		g.oblige(fmt.Sprintf("%s/loop%d-inv-entry#range", shortKey(g.key), li.ord), "inv-entry", nil, rname,
			li.rangeInvOf(phiMerged[li.rangePhi]), "loop counter stays between its start value and the loop bound (synthesised)", firstPos(b))
	}
	// inv-entry
	vars := g.loopEnv(li, st, phiMerged)
	env := g.envFor(vars, st, g.old)
	if g.loopEntryEnv == nil {
		g.loopEntryEnv = map[int]*Env{}
	}
	g.loopEntryEnv[li.ord] = g.envFor(vars, li.preSt, g.old)
	for i, c := range invs {
		t := g.mustClause(env, c.E, fmt.Sprintf("loop %d invariant#%d", li.ord, i))
		g.oblige(fmt.Sprintf("%s/loop%d-inv-entry#%d", shortKey(g.key), li.ord, i), "inv-entry", c.Tags, rname, t, c.Src, firstPos(b))
	}
	// havoc
	g.scanLoop(li, st)
	// user-declared loop frame (checked at the back edges like the guessed one)
	for _, m := range g.con.LoopMod[li.ord] {
		v := env.tr(m)
		if !v.isLv() {
			panic(fmt.Errorf("loop %d modifies item %s is not an lvalue", li.ord, m))
		}
		add := func(k, l string) {
			for _, s := range li.sLocs[k] {
				if s == l {
					return
				}
			}
			li.sLocs[k] = append(li.sLocs[k], l)
			found := false
			for _, kk := range li.kinds {
				if kk == k {
					found = true
				}
			}
			if !found {
				li.kinds = append(li.kinds, k)
				sort.Strings(li.kinds)
			}
		}
		switch {
		case v.MapCells:
			dk, vk, lk := g.mapHeapKinds(v.GoT.Underlying().(*types.Map))
			for _, k := range []string{dk, vk, lk} {
				add(k, v.Addr)
			}
		case v.Root:
			if li.sRoots == nil {
				li.sRoots = map[string][]string{}
			}
			if g.rootTypes == nil {
				g.rootTypes = map[string]types.Type{}
			}
			g.rootTypes[v.Addr] = v.GoT
			g.cellKinds(v.GoT, func(k string) {
				li.sRoots[k] = append(li.sRoots[k], v.Addr)
				found := false
				for _, kk := range li.kinds {
					if kk == k {
						found = true
					}
				}
				if !found {
					li.kinds = append(li.kinds, k)
					sort.Strings(li.kinds)
				}
			})
		case v.Win != nil:
			li.sWins = append(li.sWins, *v.Win)
		case v.GKind != "":
			add(v.GKind, v.Addr)
		default:
			g.flatCells(v.GoT, v.Addr, add)
		}
	}
	hs := st.clone()
	if li.allHav {
		g.havocAll(hs)
	} else {
		for _, k := range li.kinds {
			hpre := g.heap(st, k)
			hn := g.fresh("Hh_" + k)
			g.declare(hn, g.u.heapSort(k))
			hs.H[k] = hn
			var conds []string
			conds = append(conds, "(< (l_obj l) "+st.A+")")
			for _, s := range li.sLocs[k] {
				conds = append(conds, "(not (= l "+s+"))")
			}
			for _, s := range li.sRoots[k] {
				conds = append(conds, "(not "+g.rootChanged(s, g.rootTypes[s], k, "l")+")")
			}
			if k == "bytes" {
				for _, w := range li.sWins {
					conds = append(conds, "(not (= l "+w.arr+"))")
				}
			}
			g.assume("(forall ((l Loc)) (! (=> " + andTerms(conds) + " (= (select " + hn + " l) (select " + hpre + " l))) :pattern ((select " + hn + " l))))")
			g.frames = append(g.frames, havocFrame{kind: k, hn: hn, hpre: hpre, conds: andTerms(conds)})
			if k == "bytes" {
				for _, w := range li.sWins {
					g.assume(winFrame(hn, hpre, w, len(li.sWins) == 1))
				}
			}
		}
	}
	if li.allocs || li.allHav {
		an := g.fresh("Ah")
		g.declare(an, "Int")
		g.assume("(>= " + an + " " + st.A + ")")
		hs.A = an
	}
	phiVals := map[*ssa.Phi]string{}
	for _, phi := range li.phis {
		v := g.freshVal(phi, hs, rname)
		phiVals[phi] = v.T
	}
	li.headSt = hs
	if li.rangePhi != nil {
		g.guardAssume(rname, li.rangeInvOf(phiVals[li.rangePhi]))
	}
	vars2 := g.loopEnv(li, hs, phiVals)
	env2 := g.envFor(vars2, hs, g.old)
	if len(g.inlining) == 0 {
		g.lineTag = fmt.Sprintf("@loop:%d", li.ord)
	}
	for i, c := range invs {
		g.guardAssume(rname, g.mustClause(env2, c.E, fmt.Sprintf("loop %d invariant#%d", li.ord, i)))
	}
	g.lineTag = ""
	for _, d := range g.con.LoopDecr[li.ord] {
		li.decrAt = append(li.decrAt, env2.trInt(d))
	}
	if len(g.con.LoopDecr[li.ord]) == 0 && li.rangePhi != nil {
		li.decrAt = []string{"(- " + li.rangeN + " " + phiVals[li.rangePhi] + ")"}
		li.autoDecr = true
	}
	g.probe(fmt.Sprintf("%s/vacuity:loop%d", shortKey(g.key), li.ord), rname, "loop head reachable with invariant")
}

func winFrame(hn, hpre string, w window, precise bool) string {
	a, b := "(select "+hn+" "+w.arr+")", "(select "+hpre+" "+w.arr+")"
	f := "(= (seq.len " + a + ") (seq.len " + b + "))"
	if precise {
		end := "(+ " + w.off + " " + w.n + ")"
		f = "(and " + f + " (= (seq.extract " + a + " 0 " + w.off + ") (seq.extract " + b + " 0 " + w.off + "))" +
			" (= (seq.extract " + a + " " + end + " (- (seq.len " + a + ") " + end + ")) (seq.extract " + b + " " + end + " (- (seq.len " + b + ") " + end + "))))"
	}
	return f
}

func firstPos(b *ssa.BasicBlock) token.Pos {
	for _, ins := range b.Instrs {
		if ins.Pos().IsValid() {
			return ins.Pos()
		}
	}
	return token.NoPos
}

func (g *Gen) havocAll(st *State) {
	g.epoch++
	for _, k := range g.u.sortedKinds() {
		n := g.fresh(fmt.Sprintf("Hx%d_%s", g.epoch, k))
		g.declare(n, g.u.heapSort(k))
		st.H[k] = n
	}
	an := g.fresh("Ax")
	g.declare(an, "Int")
	g.assume("(>= " + an + " " + st.A + ")")
	st.A = an
}

// definedOutside reports whether v is available (already translated) and not defined inside the loop.
func (g *Gen) definedOutside(li *loopInfo, v ssa.Value) bool {
	switch v.(type) {
	case *ssa.Const, *ssa.Global, *ssa.Parameter, *ssa.FreeVar, *ssa.Function:
		return true
	}
	if ins, ok := v.(ssa.Instruction); ok {
		if li.blocks[ins.Block()] {
			return false
		}
		_, have := g.vals[v]
		return have
	}
	return false
}

// scanLoop determines which heap kinds the loop body may write and guesses the
// loop-invariant written locations (checked later at the back edges).
func (g *Gen) scanLoop(li *loopInfo, st *State) {
	// pass 1 determines the written kinds, pass 2 the loop-invariant written locations (which
	// may be reached through loads from kinds that pass 1 found to be unwritten)
	g.scanLoopPass(li, st, 1)
	li.kindSet = map[string]bool{}
	for _, k := range li.kinds {
		li.kindSet[k] = true
	}
	li.kinds = nil
	li.sLocs = map[string][]string{}
	li.sWins = nil
	g.scanLoopPass(li, st, 2)
	if g.con.LoopNoFrame[li.ord] {
		li.allHav = true
	}
}

// headEval gives the value of v at the loop head when v is loop invariant: defined outside the
// loop, or computed inside it only from loop-invariant values and loads of unwritten heap kinds.
func (g *Gen) headEval(li *loopInfo, st *State, v ssa.Value) (Val, bool) {
	if g.definedOutside(li, v) {
		x, ok := g.valOpt(v)
		return x, ok
	}
	if li.kindSet == nil {
		return Val{}, false
	}
	switch x := v.(type) {
	case *ssa.FieldAddr:
		b, ok := g.headEval(li, st, x.X)
		if !ok {
			return Val{}, false
		}
		st0 := x.X.Type().Underlying().(*types.Pointer).Elem()
		return Val{T: fmt.Sprintf("(fld %s %d)", b.T, g.u.fieldID(st0, x.Field)), Sort: "Loc", GoT: x.Type()}, true
	case *ssa.UnOp:
		if x.Op != token.MUL {
			return Val{}, false
		}
		p, ok := g.headEval(li, st, x.X)
		if !ok {
			return Val{}, false
		}
		written := false
		g.cellKinds(x.Type(), func(k string) {
			if li.kindSet[k] {
				written = true
			}
		})
		if _, isStruct := x.Type().Underlying().(*types.Struct); isStruct || written {
			return Val{}, false
		}
		return Val{T: g.loadTypeH(st, p.T, x.Type(), g.addrHint(x.X)), Sort: g.u.sortOf(x.Type()), GoT: x.Type()}, true
	case *ssa.ChangeType:
		return g.headEval(li, st, x.X)
	case *ssa.Convert:
		if g.u.sortOf(x.Type()) == "Loc" && g.u.sortOf(x.X.Type()) == "Loc" {
			return g.headEval(li, st, x.X)
		}
	}
	return Val{}, false
}

func (g *Gen) scanLoopPass(li *loopInfo, st *State, pass int) {
	kinds := map[string]bool{}
	addLoc := func(k, loc string) {
		for _, s := range li.sLocs[k] {
			if s == loc {
				return
			}
		}
		li.sLocs[k] = append(li.sLocs[k], loc)
	}
	var cells func(t types.Type, loc string, f func(kind, loc string))
	cells = func(t types.Type, loc string, f func(kind, loc string)) {
		switch tt := t.Underlying().(type) {
		case *types.Struct:
			for i := 0; i < tt.NumFields(); i++ {
				l := ""
				if loc != "" {
					l = fmt.Sprintf("(fld %s %d)", loc, g.u.fieldID(t, i))
				}
				cells(tt.Field(i).Type(), l, f)
			}
		case *types.Array:
			if isByteLike(tt.Elem()) {
				f("bytes", loc)
				return
			}
			if tt.Len() <= 8 {
				for i := int64(0); i < tt.Len(); i++ {
					l := ""
					if loc != "" {
						l = fmt.Sprintf("(elm %s %d)", loc, i)
					}
					cells(tt.Elem(), l, f)
				}
				return
			}
			cells(tt.Elem(), "", f)
		default:
			if isByteLike(t) {
				f("bytes", "")
			}
			f(g.scalarKind(t), loc)
		}
	}
	var blocks []*ssa.BasicBlock
	for b := range li.blocks {
		blocks = append(blocks, b)
	}
	sort.Slice(blocks, func(i, j int) bool { return blocks[i].Index < blocks[j].Index })
	for _, b := range blocks {
		for _, ins := range b.Instrs {
			switch x := ins.(type) {
			case *ssa.Store:
				if a := rootAlloc(x.Addr); a != nil && li.blocks[a.Block()] && g.privateAlloc(a) {
					continue // writes to an object that is created and dies within one iteration
				}
				loc := ""
				if hv, ok := g.headEval(li, st, x.Addr); ok && pass == 2 {
					loc = hv.T
				}
				cells(x.Val.Type(), loc, func(k, l string) {
					kinds[k] = true
					if l != "" && k != "bytes" {
						addLoc(k, l)
					}
				})
			case *ssa.Alloc:
				li.allocs = true
				if g.privateAlloc(x) {
					continue
				}
				cells(x.Type().Underlying().(*types.Pointer).Elem(), "", func(k, l string) { kinds[k] = true })
			case *ssa.MakeSlice:
				li.allocs = true
				if isByteSlice(x.Type()) {
					kinds["bytes"] = true
				}
			case *ssa.MakeMap, *ssa.MakeChan, *ssa.MakeClosure:
				li.allocs = true
				g.mapKinds(x.(ssa.Value).Type(), func(k string) { kinds[k] = true })
			case *ssa.Next:
				if rng, ok := x.Iter.(*ssa.Range); ok {
					if m, isMap := rng.X.Type().Underlying().(*types.Map); isMap {
						if loc, have := g.mrSeen[rng]; have {
							sk := g.seenKind(m)
							kinds[sk] = true
							if pass == 2 {
								addLoc(sk, loc)
							}
						}
					}
				}
			case *ssa.MapUpdate:
				if mt, isM := x.Map.Type().Underlying().(*types.Map); isM {
					// an insertion can only disturb an iteration over a map of the same Go type
					li.mapInsTypes = append(li.mapInsTypes, mt)
				}
				g.mapKinds(x.Map.Type(), func(k string) {
					kinds[k] = true
					if hv, ok := g.headEval(li, st, x.Map); ok && pass == 2 {
						addLoc(k, hv.T)
					}
				})
			case *ssa.Convert:
				if isByteSlice(x.Type()) && isString(x.X.Type()) {
					li.allocs = true
					kinds["bytes"] = true
				}
			case ssa.CallInstruction:
				g.scanCall(li, st, x, kinds, addLoc)
			}
		}
	}
	for k := range kinds {
		li.kinds = append(li.kinds, k)
	}
	sort.Strings(li.kinds)
}

// readOnlyBody: the function only loads, computes and returns (len/cap are the only calls).
func readOnlyBody(fn *ssa.Function) bool {
	for _, b := range fn.Blocks {
		for _, ins := range b.Instrs {
			switch x := ins.(type) {
			case *ssa.Store, *ssa.MapUpdate, *ssa.Alloc, *ssa.MakeSlice, *ssa.MakeMap, *ssa.MakeChan, *ssa.MakeClosure,
				*ssa.Go, *ssa.Defer, *ssa.Send, *ssa.Select, *ssa.Panic, *ssa.RunDefers:
				return false
			case *ssa.Convert:
				if isByteSlice(x.Type()) && isString(x.X.Type()) {
					return false
				}
			case *ssa.Call:
				bi, ok := x.Call.Value.(*ssa.Builtin)
				if !ok || (bi.Name() != "len" && bi.Name() != "cap") {
					return false
				}
			}
		}
	}
	return true
}

func (g *Gen) scanCall(li *loopInfo, st *State, ins ssa.CallInstruction, kinds map[string]bool, addLoc func(k, loc string)) {
	if _, isGo := ins.(*ssa.Go); isGo {
		return
	}
	if _, isDefer := ins.(*ssa.Defer); isDefer {
		panic(unsupported{"defer inside a loop"})
	}
	cc := ins.Common()
	if b, ok := cc.Value.(*ssa.Builtin); ok && !cc.IsInvoke() {
		switch b.Name() {
		case "append":
			li.allocs = true
			if isByteSlice(cc.Args[0].Type()) {
				kinds["bytes"] = true
			} else {
				el := cc.Args[0].Type().Underlying().(*types.Slice).Elem()
				g.cellKinds(el, func(k string) { kinds[k] = true })
			}
		case "copy":
			if isByteSlice(cc.Args[0].Type()) {
				kinds["bytes"] = true
			} else {
				el := cc.Args[0].Type().Underlying().(*types.Slice).Elem()
				g.cellKinds(el, func(k string) { kinds[k] = true })
			}
		case "delete":
			g.mapKinds(cc.Args[0].Type(), func(k string) { kinds[k] = true })
		}
		return
	}
	ci := g.resolveCall(cc)
	if ci.key == "sort.Slice" {
		if mi, ok := cc.Args[0].(*ssa.MakeInterface); ok {
			if slt, ok := mi.X.Type().Underlying().(*types.Slice); ok && !isByteLike(slt.Elem()) {
				g.cellKinds(slt.Elem(), func(k string) { kinds[k] = true })
				return
			}
		}
	}
	if ci.con == nil {
		if ci.fn != nil && g.canInline(ci) && readOnlyBody(ci.fn) {
			return // an inlined getter: no stores, no allocation, no calls
		}
		// conservative: treat as havoc-all (inlined bodies are small; refine when needed)
		if os.Getenv("GOVC_DEBUG") != "" {
			fmt.Fprintf(os.Stderr, "debug: loop %d of %s loses its frame at call %s\n", li.ord, g.key, ci.key)
		}
		li.allHav = true
		return
	}
	if ci.con.Pure {
		return
	}
	if ci.con.Allocates {
		li.allocs = true
	}
	// translate modifies items with the actuals, in the pre-loop state, if loop invariant
	vars := map[string]Val{}
	for i, a := range ci.args {
		if hv, ok := g.headEval(li, st, a); ok && i < len(ci.formals) {
			vars[ci.formals[i]] = hv
		}
	}
	for _, m := range ci.con.Modifies {
		// try to evaluate the item at the loop head with the loop-invariant actuals only;
		// if it mentions an actual that varies in the loop, only its kinds are recorded.
		k, loc, win, ok := g.tryModItem(ci, m, vars, st)
		if !ok {
			k, _, _ = g.modItem(ci, m, nil, st, false)
			loc, win = nil, nil
		}
		for _, kk := range k {
			kinds[kk] = true
			if strings.HasPrefix(kk, "mapdom_") {
				if li.mapIns == nil {
					li.mapIns = map[string]bool{}
				}
				li.mapIns[kk] = true
			}
		}
		for i, kk := range k {
			if loc != nil && loc[i] != "" {
				addLoc(kk, loc[i])
			}
		}
		if win != nil {
			li.sWins = append(li.sWins, *win)
		}
	}
}

func (g *Gen) tryModItem(ci *callInfo, m *Expr, vars map[string]Val, st *State) (k []string, loc []string, win *window, ok bool) {
	defer func() {
		if r := recover(); r != nil {
			ok = false
		}
	}()
	k, loc, win = g.modItem(ci, m, vars, st, true)
	return k, loc, win, true
}

func (g *Gen) cellKinds(t types.Type, f func(k string)) {
	switch tt := t.Underlying().(type) {
	case *types.Struct:
		for i := 0; i < tt.NumFields(); i++ {
			g.cellKinds(tt.Field(i).Type(), f)
		}
	case *types.Array:
		if isByteLike(tt.Elem()) {
			f("bytes")
			return
		}
		g.cellKinds(tt.Elem(), f)
	default:
		f(g.scalarKind(t))
	}
}

// modItem evaluates a modifies item; returns the kinds, the cell locations
// (parallel to kinds, "" when not evaluable) and a byte window if it is one.
func (g *Gen) modItem(ci *callInfo, m *Expr, vars map[string]Val, st *State, evaluable bool) (kinds []string, locs []string, win *window) {
	// static kind: translate with dummy env when not evaluable
	var v Val
	ok := func() (ok bool) {
		defer func() {
			if r := recover(); r != nil {
				if _, is := r.(trErr); is {
					ok = false
					return
				}
				panic(r)
			}
		}()
		env := g.envFor(vars, st, st)
		if ci.pkg != nil {
			env.pkg = ci.pkg
		}
		if !evaluable {
			// bind formals to typed dummies so the kind can be determined
			vars = map[string]Val{}
			for i, n := range ci.formals {
				if i < len(ci.argTypes) {
					vars[n] = Val{T: "dummy!" + n, Sort: g.u.sortOf(ci.argTypes[i]), GoT: ci.argTypes[i]}
				}
			}
			env.vars = vars
		}
		v = env.tr(m)
		return true
	}()
	if !ok || !v.isLv() {
		panic(fmt.Errorf("modifies item %s of %s is not an lvalue", m, ci.key))
	}
	if v.MapCells {
		dk, vk, lk := g.mapHeapKinds(v.GoT.Underlying().(*types.Map))
		for _, k := range []string{dk, vk, lk} {
			kinds = append(kinds, k)
			if evaluable {
				locs = append(locs, v.Addr)
			} else {
				locs = append(locs, "")
			}
		}
		return
	}
	if v.Root {
		g.cellKinds(v.GoT, func(k string) {
			kinds = append(kinds, k)
			locs = append(locs, "")
		})
		return
	}
	if v.Win != nil {
		if evaluable {
			return []string{"bytes"}, []string{""}, v.Win
		}
		return []string{"bytes"}, []string{""}, nil
	}
	if v.GKind != "" {
		if evaluable {
			return []string{v.GKind}, []string{v.Addr}, nil
		}
		return []string{v.GKind}, []string{""}, nil
	}
	g.flatCells(v.GoT, v.Addr, func(k, l string) {
		kinds = append(kinds, k)
		if evaluable {
			locs = append(locs, l)
		} else {
			locs = append(locs, "")
		}
	})
	return
}

func (g *Gen) flatCells(t types.Type, loc string, f func(kind, loc string)) {
	switch tt := t.Underlying().(type) {
	case *types.Struct:
		for i := 0; i < tt.NumFields(); i++ {
			g.flatCells(tt.Field(i).Type(), fmt.Sprintf("(fld %s %d)", loc, g.u.fieldID(t, i)), f)
		}
	case *types.Array:
		if isByteLike(tt.Elem()) {
			f("bytes", loc)
			return
		}
		if tt.Len() <= 8 {
			for i := int64(0); i < tt.Len(); i++ {
				g.flatCells(tt.Elem(), fmt.Sprintf("(elm %s %d)", loc, i), f)
			}
			return
		}
		unsup("modifies of large array")
	default:
		f(g.scalarKind(t), loc)
	}
}

func (g *Gen) backEdge(b *ssa.BasicBlock, succIdx int, h *ssa.BasicBlock, st *State, rname string) {
	li := g.loops[h]
	guard := "(and " + rname + " " + g.edgeCond(b, succIdx) + ")"
	// which pred index of h is this edge?
	predIdx := -1
	occ := 0
	for i, p := range h.Preds {
		if p == b {
			// match occurrence order with succ occurrence order
			k := 0
			for j := 0; j < succIdx; j++ {
				if b.Succs[j] == h {
					k++
				}
			}
			if occ == k {
				predIdx = i
				break
			}
			occ++
		}
	}
	phiVals := map[*ssa.Phi]string{}
	for _, phi := range li.phis {
		phiVals[phi] = g.val(phi.Edges[predIdx]).T
	}
	vars := g.loopEnv(li, st, phiVals)
	env := g.envFor(vars, st, g.old)
	if li.rangePhi != nil {
		g.oblige(fmt.Sprintf("%s/loop%d-inv-preserved#range@b%d", shortKey(g.key), li.ord, b.Index), "inv-preserved", nil, guard,
			li.rangeInvOf(phiVals[li.rangePhi]), "loop counter stays between its start value and the loop bound (synthesised)", firstPos(h))
	}
	for i, c := range g.con.LoopInv[li.ord] {
		t := g.mustClause(env, c.E, fmt.Sprintf("loop %d invariant#%d", li.ord, i))
		g.oblige(fmt.Sprintf("%s/loop%d-inv-preserved#%d@b%d", shortKey(g.key), li.ord, i, b.Index), "inv-preserved", c.Tags, guard, t, c.Src, firstPos(h))
	}
	// variant
	if ds := g.con.LoopDecr[li.ord]; len(ds) > 0 {
		var after []string
		for _, d := range ds {
			after = append(after, env.trInt(d))
		}
		g.oblige(fmt.Sprintf("%s/loop%d-decreases@b%d", shortKey(g.key), li.ord, b.Index), "decreases", []string{"TERM"}, guard, lexLess(after, li.decrAt), "loop variant decreases and is bounded below", firstPos(h))
	} else if li.autoDecr {
		after := []string{"(- " + li.rangeN + " " + phiVals[li.rangePhi] + ")"}
		g.oblige(fmt.Sprintf("%s/loop%d-decreases@b%d", shortKey(g.key), li.ord, b.Index), "decreases", []string{"TERM"}, guard, lexLess(after, li.decrAt), "loop counter approaches the loop bound (synthesised variant)", firstPos(h))
	} else {
		g.stats.Abstractions["loop-without-variant"]++
		g.stats.Abstractions[fmt.Sprintf("loop-without-variant:%s/loop%d", shortKey(g.key), li.ord)]++
	}
	// loop frame (checked version of the assumption made at the head)
	if !li.allHav {
		for _, k := range li.kinds {
			hend, hh := g.heap(st, k), g.heap(li.headSt, k)
			if hend == hh {
				continue
			}
			sk := g.freshConst("lf", "Loc")
			g.instFrames(k, sk)
			var conds []string
			conds = append(conds, "(< (l_obj "+sk+") "+li.preSt.A+")", "(not (= (l_obj "+sk+") 0))") // nothing lives in the nil object
			for _, s := range li.sLocs[k] {
				conds = append(conds, "(not (= "+sk+" "+s+"))")
			}
			for _, s := range li.sRoots[k] {
				conds = append(conds, "(not "+g.rootChanged(s, g.rootTypes[s], k, sk)+")")
			}
			if k == "bytes" {
				for _, w := range li.sWins {
					conds = append(conds, "(not (= "+sk+" "+w.arr+"))")
				}
			}
			f := "(=> " + andTerms(conds) + " (= (select " + hend + " " + sk + ") (select " + hh + " " + sk + ")))"
			if k == "bytes" {
				for _, w := range li.sWins {
					f = "(and " + f + " " + winFrame(hend, hh, w, len(li.sWins) == 1) + ")"
				}
			}
			g.oblige(fmt.Sprintf("%s/loop%d-frame:%s@b%d", shortKey(g.key), li.ord, k, b.Index), "loop-frame", nil, guard, f,
				"one iteration writes only the loop-invariant locations guessed at the head (kind "+k+")", firstPos(h))
		}
	}
}

// lexLess: after <lex before, with each component bounded below by 0.
func lexLess(after, before []string) string {
	if len(after) == 0 {
		return "true"
	}
	var alts []string
	for i := range after {
		var cs []string
		for j := 0; j < i; j++ {
			cs = append(cs, "(= "+after[j]+" "+before[j]+")")
		}
		cs = append(cs, "(< "+after[i]+" "+before[i]+")", "(>= "+before[i]+" 0)")
		alts = append(alts, andTerms(cs))
	}
	return orTerms(alts)
}

func (g *Gen) exit() {
	if len(g.rets) == 0 {
		return
	}
	var edges []string
	var sts []*State
	for _, r := range g.rets {
		edges = append(edges, r.r)
		sts = append(sts, r.st)
	}
	st := g.mergeStates(edges, sts)
	g.define("r_exit", "Bool", orTerms(edges))
	vars := map[string]Val{}
	for k, v := range g.penv {
		vars[k] = v
	}
	names := resultNames(g.fn.Signature)
	for i := range names {
		t := g.rets[len(g.rets)-1].results[i].T
		for j := len(g.rets) - 2; j >= 0; j-- {
			t = "(ite " + g.rets[j].r + " " + g.rets[j].results[i].T + " " + t + ")"
		}
		rt := g.fn.Signature.Results().At(i).Type()
		n := fmt.Sprintf("ret_%d", i)
		g.define(n, g.u.sortOf(rt), t)
		for _, nm := range names[i] {
			if _, clash := g.penv[nm]; clash && nm != "err" && nm != "result" {
				// named result shadows nothing: params and results share a scope in Go, so no clash possible
			}
			vars[nm] = Val{T: n, Sort: g.u.sortOf(rt), GoT: rt}
		}
	}
	for _, eg := range g.con.ExitGhost {
		genv := g.envFor(vars, st, g.old)
		lv := genv.tr(eg.LHS)
		if !lv.isLv() || lv.GKind == "" {
			panic(fmt.Errorf("exitghost: %s is not a ghost location", eg.LHS))
		}
		rv := genv.tr(eg.E)
		t := ""
		if seqLike(rv) {
			t = genv.asSeq(rv)
		} else {
			t = genv.rv(rv).T
		}
		g.setHeap(st, lv.GKind, "(store "+g.heap(st, lv.GKind)+" "+lv.Addr+" "+t+")")
	}
	env := g.envFor(vars, st, g.old)
	if g.con.Trusted && g.con.ArgsOnly {
		// a trusted contract whose call-site assertions are checked (argsonly): postconditions and frame stay
		// assumptions for the callers, nothing about them is proved here
		return
	}
	for i, c := range g.con.Ensures {
		if c.Unproved {
			continue
		}
		if g.con.PerReturn && len(g.rets) > 1 {
			for j, rt := range g.rets {
				rv := map[string]Val{}
				for k, v := range g.penv {
					rv[k] = v
				}
				for ri := range names {
					for _, nm := range names[ri] {
						rv[nm] = rt.results[ri]
					}
				}
				renv := g.envFor(rv, rt.st, g.old)
				t := g.mustClause(renv, c.E, fmt.Sprintf("ensures#%d", i))
				g.oblige(fmt.Sprintf("%s/ensures#%d@ret%d", shortKey(g.key), i, j), "ensures", c.Tags, rt.r, t, c.Src, g.fn.Pos())
			}
			continue
		}
		t := g.mustClause(env, c.E, fmt.Sprintf("ensures#%d", i))
		g.oblige(fmt.Sprintf("%s/ensures#%d", shortKey(g.key), i), "ensures", c.Tags, "r_exit", t, c.Src, g.fn.Pos())
	}
	g.frameCheck(st, env)
	g.probe(shortKey(g.key)+"/vacuity:exit", "r_exit", "some return is reachable")
}

// frameCheck: every pre-existing location outside the modifies clause is unchanged.
func (g *Gen) frameCheck(st *State, env *Env) {
	if g.con.Trusted || g.con.NoFrame {
		return
	}
	oldEnv := g.envFor(g.penv, g.old, g.old)
	modLocs := map[string][]string{}
	modRoots := map[string][]string{}
	var wins []window
	for _, m := range g.con.Modifies {
		v := oldEnv.tr(m)
		if !v.isLv() {
			panic(fmt.Errorf("modifies item %s is not an lvalue", m))
		}
		if v.MapCells {
			dk, vk, lk := g.mapHeapKinds(v.GoT.Underlying().(*types.Map))
			for _, k := range []string{dk, vk, lk} {
				modLocs[k] = append(modLocs[k], v.Addr)
			}
			continue
		}
		if v.Root {
			if g.rootTypes == nil {
				g.rootTypes = map[string]types.Type{}
			}
			g.rootTypes[v.Addr] = v.GoT
			g.cellKinds(v.GoT, func(k string) { modRoots[k] = append(modRoots[k], v.Addr) })
			continue
		}
		if v.Win != nil {
			wins = append(wins, *v.Win)
			continue
		}
		if v.GKind != "" {
			modLocs[v.GKind] = append(modLocs[v.GKind], v.Addr)
			continue
		}
		g.flatCells(v.GoT, v.Addr, func(k, l string) { modLocs[k] = append(modLocs[k], l) })
	}
	var kinds []string
	for k := range st.H {
		kinds = append(kinds, k)
	}
	sort.Strings(kinds)
	for _, k := range kinds {
		hend, h0 := g.heap(st, k), g.heap(g.old, k)
		if hend == h0 {
			continue
		}
		sk := g.freshConst("fr", "Loc")
		g.instFrames(k, sk)
		conds := []string{"(< (l_obj " + sk + ") A0)", "(not (= (l_obj " + sk + ") 0))"}
		for _, l := range modLocs[k] {
			conds = append(conds, "(not (= "+sk+" "+l+"))")
		}
		for _, l := range modRoots[k] {
			conds = append(conds, "(not "+g.rootChanged(l, g.rootTypes[l], k, sk)+")")
		}
		if k == "bytes" {
			for _, w := range wins {
				if w.guard != "" {
					conds = append(conds, "(not (and "+w.guard+" (= "+sk+" "+w.arr+")))")
				} else {
					conds = append(conds, "(not (= "+sk+" "+w.arr+"))")
				}
			}
		}
		f := "(=> " + andTerms(conds) + " (= (select " + hend + " " + sk + ") (select " + h0 + " " + sk + ")))"
		if k == "bytes" {
			for _, w := range wins {
				wf := winFrame(hend, h0, w, len(wins) == 1)
				if w.guard != "" {
					wf = "(=> " + w.guard + " " + wf + ")"
				}
				f = "(and " + f + " " + wf + ")"
			}
		}
		g.oblige(fmt.Sprintf("%s/frame:%s", shortKey(g.key), k), "frame", []string{"FRAME"}, "r_exit", f,
			"nothing outside the modifies clause changes (heap kind "+k+")", g.fn.Pos())
	}
}

// ---------------------------------------------------------------- map kinds

func (g *Gen) mapKinds(t types.Type, f func(k string)) {
	m, ok := t.Underlying().(*types.Map)
	if !ok {
		return
	}
	d, v, l := g.mapHeapKinds(m)
	f(d)
	f(v)
	f(l)
}

func (g *Gen) mapHeapKinds(m *types.Map) (dom, val, ln string) {
	ks := g.u.sortOf(m.Key())
	vs := g.u.sortOf(m.Elem())
	dom = "mapdom_" + sanitize(ks)
	val = "mapval_" + sanitize(ks) + "_" + sanitize(vs)
	ln = "maplen"
	g.u.kindSort[dom] = "(Array " + ks + " Bool)"
	g.u.kindSort[val] = "(Array " + ks + " " + vs + ")"
	g.u.kindSort[ln] = "Int"
	return
}

func (e *Env) mapGet(b Val, m *types.Map, k Val) Val {
	_, vk, _ := e.g.mapHeapKinds(m)
	kt := k.T
	if seqLike(k) {
		kt = e.asSeq(k)
	}
	raw := "(select (select " + e.g.heap(e.cur, vk) + " " + b.T + ") " + kt + ")"
	if e.inPat {
		return Val{T: raw, Sort: e.u().sortOf(m.Elem()), GoT: m.Elem()}
	}
	// Go semantics of m[k]: the zero value when k is not a key (or m is nil)
	dk, _, _ := e.g.mapHeapKinds(m)
	has := "(and (not (= " + b.T + " nilloc)) (select (select " + e.g.heap(e.cur, dk) + " " + b.T + ") " + kt + "))"
	return Val{T: "(ite " + has + " " + raw + " " + e.g.zeroTerm(m.Elem()) + ")", Sort: e.u().sortOf(m.Elem()), GoT: m.Elem()}
}

func (e *Env) mapHas(b Val, m *types.Map, k Val) string {
	dk, _, _ := e.g.mapHeapKinds(m)
	kt := k.T
	if seqLike(k) {
		kt = e.asSeq(k)
	}
	if e.inPat {
		return "(select (select " + e.g.heap(e.cur, dk) + " " + b.T + ") " + kt + ")"
	}
	return "(and (not (= " + b.T + " nilloc)) (select (select " + e.g.heap(e.cur, dk) + " " + b.T + ") " + kt + "))"
}

func (e *Env) mapLen(b Val, m *types.Map) string {
	_, _, lk := e.g.mapHeapKinds(m)
	return "(ite (= " + b.T + " nilloc) 0 (select " + e.g.heap(e.cur, lk) + " " + b.T + "))"
}

var _ = strings.Join

// rootAlloc follows FieldAddr/IndexAddr chains back to an Alloc.
func rootAlloc(v ssa.Value) *ssa.Alloc {
	for {
		switch x := v.(type) {
		case *ssa.Alloc:
			return x
		case *ssa.FieldAddr:
			v = x.X
		case *ssa.IndexAddr:
			v = x.X
		default:
			return nil
		}
	}
}

// privateAlloc: the object never outlives the statement sequence that creates it: its
// address is only used for element/field stores and loads, or sliced and handed to
// callees whose contract is pure (variadic argument arrays of logging/formatting calls).
func (g *Gen) privateAlloc(a *ssa.Alloc) bool {
	var ok func(v ssa.Value, depth int) bool
	ok = func(v ssa.Value, depth int) bool {
		if depth > 4 || v.Referrers() == nil {
			return false
		}
		for _, r := range *v.Referrers() {
			switch x := r.(type) {
			case *ssa.Store:
				if x.Val == v {
					return false
				}
			case *ssa.UnOp:
			case *ssa.DebugRef:
			case *ssa.FieldAddr:
				if !ok(x, depth+1) {
					return false
				}
			case *ssa.IndexAddr:
				if !ok(x, depth+1) {
					return false
				}
			case *ssa.Slice:
				if !ok(x, depth+1) {
					return false
				}
			case *ssa.Call:
				ci := g.resolveCall(x.Common())
				if ci.con == nil || !ci.con.Pure {
					return false
				}
			default:
				return false
			}
		}
		return true
	}
	return ok(a, 0)
}

type havocFrame struct{ kind, hn, hpre, conds string }

// instFrames instantiates the quantified loop-frame assumptions at a skolem location
// (generator-side instantiation: the solver need not find these by e-matching).
func (g *Gen) instFrames(kind, sk string) {
	for _, f := range g.frames {
		if f.kind != kind {
			continue
		}
		c := substSym(f.conds, "l", sk)
		g.assume("(=> " + c + " (= (select " + f.hn + " " + sk + ") (select " + f.hpre + " " + sk + ")))")
	}
}

// substSym replaces the free symbol sym by repl in an SMT term (token-wise).
func substSym(t, sym, repl string) string {
	var sb strings.Builder
	i := 0
	for i < len(t) {
		c := t[i]
		if c == '(' || c == ')' || c == ' ' || c == '\n' {
			sb.WriteByte(c)
			i++
			continue
		}
		j := i
		for j < len(t) && t[j] != '(' && t[j] != ')' && t[j] != ' ' && t[j] != '\n' {
			j++
		}
		tok := t[i:j]
		if tok == sym {
			sb.WriteString(repl)
		} else {
			sb.WriteString(tok)
		}
		i = j
	}
	return sb.String()
}

func (li *loopInfo) rangeInvOf(pv string) string {
	c := smtI(li.rangeC)
	if li.rangePlus {
		// compared as phi+1 < N: phi stays within c .. max(N-1, c)
		return "(and (<= " + c + " " + pv + ") (<= " + pv + " (imax (- " + li.rangeN + " 1) " + c + ")))"
	}
	return "(and (<= " + c + " " + pv + ") (<= " + pv + " (imax " + li.rangeN + " " + c + ")))"
}

// findRangeIndex recognises counting loops in SSA form and synthesises their index invariant:
//   for i := range slice   (phi "rangeindex" from -1, compared as phi+1 < len)
//   for i := c; i < N; i++ (phi from a constant c, step +1, compared as phi < N)
// N must be loop invariant (defined outside, or a load from a heap kind the loop does not write).
func (g *Gen) findRangeIndex(li *loopInfo) {
	if li.rangePhi != nil || li.rangeTried {
		return
	}
	li.rangeTried = true
	for _, phi := range li.phis {
		if !isInteger(phi.Type()) {
			continue
		}
		// entry constant and +1 step
		var c *ssa.Const
		okShape := true
		for i, e := range phi.Edges {
			pred := li.head.Preds[i]
			if isBackEdge(pred, li.head) {
				inc, ok := e.(*ssa.BinOp)
				if !ok || inc.Op != token.ADD || inc.X != ssa.Value(phi) {
					okShape = false
					break
				}
				if one, ok := inc.Y.(*ssa.Const); !ok || one.Value == nil || one.Int64() != 1 {
					okShape = false
					break
				}
			} else {
				k, ok := e.(*ssa.Const)
				if !ok || k.Value == nil || (c != nil && c.Int64() != k.Int64()) {
					okShape = false
					break
				}
				c = k
			}
		}
		if !okShape || c == nil {
			continue
		}
		for _, ins := range li.head.Instrs {
			cmp, ok := ins.(*ssa.BinOp)
			if !ok || cmp.Op != token.LSS {
				continue
			}
			plusOne := false
			if cmp.X != ssa.Value(phi) {
				inc, ok := cmp.X.(*ssa.BinOp)
				if !ok || inc.Op != token.ADD || inc.X != ssa.Value(phi) {
					continue
				}
				plusOne = true
			}
			var nv Val
			var okN bool
			if li.preSt != nil {
				nv, okN = g.headEvalN(li, cmp.Y)
			}
			if !okN {
				continue
			}
			li.rangePhi, li.rangeN, li.rangeC, li.rangePlus = phi, nv.T, c.Int64(), plusOne
			return
		}
	}
}

// headEvalN evaluates the loop bound at the loop head (pre-state); the written kinds are needed
// for loads, so it runs a kinds-only scan when that has not happened yet.
func (g *Gen) headEvalN(li *loopInfo, v ssa.Value) (Val, bool) {
	if g.definedOutside(li, v) {
		return g.valOpt(v)
	}
	if li.kindSet == nil {
		saveK, saveS, saveW, saveA, saveH := li.kinds, li.sLocs, li.sWins, li.allocs, li.allHav
		li.kinds, li.sLocs, li.sWins = nil, map[string][]string{}, nil
		g.scanLoopPass(li, li.preSt, 1)
		ks := map[string]bool{}
		for _, k := range li.kinds {
			ks[k] = true
		}
		hav := li.allHav
		li.kinds, li.sLocs, li.sWins, li.allocs, li.allHav = saveK, saveS, saveW, saveA, saveH
		if hav {
			return Val{}, false
		}
		li.kindSet = ks
		defer func() { li.kindSet = nil }()
	}
	return g.headEval(li, li.preSt, v)
}

func (g *Gen) isPlainRangeLoop(li *loopInfo) bool {
	g.findRangeIndex(li)
	return li.rangePhi != nil
}
