package main

import (
	"fmt"
	"go/types"
	"math/big"
	"sort"
	"strings"
)

// Val is a translated value: an SMT term with its sort and (if it came from the
// program) its Go type. An lvalue has Addr set and T empty until loaded.
type Val struct {
	T     string
	Sort  string
	GoT   types.Type
	Addr  string
	GKind string // heap kind override for ghost lvalues
	Tuple []Val
	Win   *window // byte window lvalue (for modifies)
	MapCells bool // modifies item: the three cells (domain, values, length) of a map object
	Root  bool    // modifies item: every cell under the root object of Addr (element cells of a slice)
}

type window struct{ arr, off, n, guard string }

func (v Val) isLv() bool { return v.Addr != "" && v.T == "" }

// State is the symbolic heap state at a program point.
type State struct {
	H map[string]string // heap kind -> term
	A string            // allocation counter
}

func (s *State) clone() *State {
	n := &State{H: map[string]string{}, A: s.A}
	for k, v := range s.H {
		n.H[k] = v
	}
	return n
}

// Universe holds per-run registries shared by all functions: heap kinds, struct
// datatypes, field identifiers.
type Universe struct {
	kindSort   map[string]string
	structSort map[string]string // types string -> datatype name
	structDecl []string
	structInfo map[string]*types.Struct
	fieldIDs   map[string]int
	typeIDs    map[string]int
	globalIDs  map[string]int
	funcIDs    map[string]int
	strIDs     map[string]int
}

func NewUniverse() *Universe {
	return &Universe{kindSort: map[string]string{}, structSort: map[string]string{}, structInfo: map[string]*types.Struct{},
		fieldIDs: map[string]int{}, typeIDs: map[string]int{}, globalIDs: map[string]int{}, funcIDs: map[string]int{}, strIDs: map[string]int{}}
}

func isByteLike(t types.Type) bool {
	b, ok := t.Underlying().(*types.Basic)
	return ok && (b.Kind() == types.Uint8 || b.Kind() == types.Int8)
}

func isByteSlice(t types.Type) bool {
	if t == nil {
		return false
	}
	s, ok := t.Underlying().(*types.Slice)
	return ok && isByteLike(s.Elem())
}

func isByteArray(t types.Type) bool {
	if t == nil {
		return false
	}
	a, ok := t.Underlying().(*types.Array)
	return ok && isByteLike(a.Elem())
}

func isString(t types.Type) bool {
	if t == nil {
		return false
	}
	b, ok := t.Underlying().(*types.Basic)
	return ok && b.Info()&types.IsString != 0
}

type unsupported struct{ msg string }

func (u unsupported) Error() string { return "unsupported: " + u.msg }

func unsup(format string, a ...any) { panic(unsupported{fmt.Sprintf(format, a...)}) }

// sortOf maps a Go type to the SMT sort of its values.
func (u *Universe) sortOf(t types.Type) string {
	switch tt := t.Underlying().(type) {
	case *types.Basic:
		switch {
		case tt.Info()&types.IsBoolean != 0:
			return "Bool"
		case tt.Info()&types.IsInteger != 0:
			return "Int"
		case tt.Info()&types.IsFloat != 0:
			return "Int" // bit pattern
		case tt.Info()&types.IsString != 0:
			return "(Seq Int)"
		case tt.Kind() == types.UnsafePointer:
			return "Loc"
		case tt.Kind() == types.UntypedNil:
			return "Loc"
		}
	case *types.Pointer, *types.Map, *types.Chan:
		return "Loc"
	case *types.Signature:
		return "Int"
	case *types.Slice:
		return "Slice"
	case *types.Interface:
		return "Iface"
	case *types.Struct:
		return u.structDatatype(t)
	case *types.Array:
		if isByteLike(tt.Elem()) {
			return "(Seq Int)"
		}
		return "(Array Int " + u.sortOf(tt.Elem()) + ")"
	case *types.Tuple:
		return "Tuple"
	}
	unsup("type %s", t)
	return ""
}

func (u *Universe) structDatatype(t types.Type) string {
	key := t.String()
	if s, ok := u.structSort[key]; ok {
		return s
	}
	st := t.Underlying().(*types.Struct)
	name := fmt.Sprintf("S%d_%s", len(u.structSort), sanitize(shortType(key)))
	u.structSort[key] = name
	u.structInfo[name] = st
	var fs []string
	for i := 0; i < st.NumFields(); i++ {
		fs = append(fs, fmt.Sprintf("(%s_f%d %s)", name, i, u.sortOf(st.Field(i).Type())))
	}
	if len(fs) == 0 {
		fs = append(fs, fmt.Sprintf("(%s_dummy Int)", name))
	}
	u.structDecl = append(u.structDecl, fmt.Sprintf("(declare-datatypes ((%s 0)) (((mk_%s %s))))", name, name, strings.Join(fs, " ")))
	return name
}

func shortType(s string) string {
	if i := strings.LastIndex(s, "/"); i >= 0 {
		s = s[i+1:]
	}
	if len(s) > 30 {
		s = s[:30]
	}
	return s
}

func sanitize(s string) string {
	var sb strings.Builder
	for _, r := range s {
		if r >= 'a' && r <= 'z' || r >= 'A' && r <= 'Z' || r >= '0' && r <= '9' || r == '_' {
			sb.WriteRune(r)
		} else {
			sb.WriteByte('_')
		}
	}
	return sb.String()
}

// kindOf gives the heap kind for a scalar Go type.
func (u *Universe) kindOf(t types.Type) string {
	var k, s string
	switch tt := t.Underlying().(type) {
	case *types.Basic:
		switch {
		case tt.Info()&types.IsBoolean != 0:
			k, s = "bool", "Bool"
		case tt.Info()&types.IsString != 0:
			k, s = "string", "(Seq Int)"
		case tt.Kind() == types.UnsafePointer:
			k, s = "ptr", "Loc"
		case tt.Info()&types.IsInteger != 0 || tt.Info()&types.IsFloat != 0:
			k, s = basicKindName(tt), "Int"
		}
	case *types.Pointer, *types.Map, *types.Chan:
		k, s = "ptr", "Loc"
	case *types.Signature:
		k, s = "fn", "Int"
	case *types.Slice:
		k, s = "slice", "Slice"
	case *types.Interface:
		k, s = "iface", "Iface"
	case *types.Array:
		if isByteLike(tt.Elem()) {
			k, s = "bytes", "(Seq Int)"
		}
	}
	if k == "" {
		unsup("no scalar heap kind for %s", t)
	}
	u.kindSort[k] = s
	return k
}

func basicKindName(b *types.Basic) string {
	switch b.Kind() {
	case types.Int, types.Int64:
		return "i64"
	case types.Uint, types.Uint64, types.Uintptr:
		return "u64"
	case types.Int8:
		return "u8" // byte-like values share one heap; int8 is the signed view
	case types.Uint8:
		return "u8"
	case types.Int16:
		return "i16"
	case types.Uint16:
		return "u16"
	case types.Int32:
		return "i32"
	case types.Uint32:
		return "u32"
	case types.Float32:
		return "f32"
	case types.Float64:
		return "f64"
	}
	return "i64"
}

func (u *Universe) ghostKind(specType string) string {
	switch specType {
	case "int":
		u.kindSort["gint"] = "Int"
		return "gint"
	case "seq":
		u.kindSort["gseq"] = "(Seq Int)"
		return "gseq"
	case "bool":
		u.kindSort["gbool"] = "Bool"
		return "gbool"
	case "loc":
		u.kindSort["gloc"] = "Loc"
		return "gloc"
	}
	s := specSort(specType)
	k := "g_" + sanitize(s)
	u.kindSort[k] = s
	return k
}

func specSort(t string) string {
	switch t {
	case "int", "":
		return "Int"
	case "bool":
		return "Bool"
	case "seq":
		return "(Seq Int)"
	case "loc":
		return "Loc"
	case "iface":
		return "Iface"
	case "slice":
		return "Slice"
	case "intarr":
		return "(Array Int Int)"
	case "seqarr":
		return "(Array Int (Seq Int))"
	case "intset":
		return "(Array Int Bool)"
	case "seqset":
		return "(Array (Seq Int) Bool)"
	case "seqmap":
		return "(Array (Seq Int) (Seq Int))"
	case "locarr":
		return "(Array Int Loc)"
	case "seqseq":
		return "(Seq (Seq Int))"
	case "ifaceset":
		return "(Array Iface Bool)"
	case "ifacemap":
		return "(Array Iface Iface)"
	case "locset":
		return "(Array Loc Bool)"
	}
	panic(fmt.Errorf("unknown spec type %q", t))
}

func (u *Universe) fieldID(structType types.Type, idx int) int {
	key := fmt.Sprintf("%s#%d", structType.String(), idx)
	if id, ok := u.fieldIDs[key]; ok {
		return id
	}
	id := len(u.fieldIDs) + 1
	u.fieldIDs[key] = id
	return id
}

func (u *Universe) typeID(t types.Type) int {
	key := t.String()
	if id, ok := u.typeIDs[key]; ok {
		return id
	}
	id := len(u.typeIDs) + 1
	u.typeIDs[key] = id
	return id
}

func (u *Universe) globalID(name string) int {
	if id, ok := u.globalIDs[name]; ok {
		return id
	}
	id := -(len(u.globalIDs) + 1)
	u.globalIDs[name] = id
	return id
}

func (u *Universe) funcID(name string) int {
	if id, ok := u.funcIDs[name]; ok {
		return id
	}
	id := len(u.funcIDs) + 1
	u.funcIDs[name] = id
	return id
}

func (u *Universe) heapSort(kind string) string {
	s, ok := u.kindSort[kind]
	if !ok {
		panic("unknown heap kind " + kind)
	}
	return "(Array Loc " + s + ")"
}

func (u *Universe) sortedKinds() []string {
	var ks []string
	for k := range u.kindSort {
		ks = append(ks, k)
	}
	sort.Strings(ks)
	return ks
}

// intRange returns the inclusive range of an integer type; ok=false for non-integers.
func intRange(t types.Type) (lo, hi *big.Int, ok bool) {
	b, isB := t.Underlying().(*types.Basic)
	if !isB {
		return nil, nil, false
	}
	one := big.NewInt(1)
	pow := func(k uint) *big.Int { return new(big.Int).Lsh(one, k) }
	s := func(k uint) (*big.Int, *big.Int, bool) {
		return new(big.Int).Neg(pow(k - 1)), new(big.Int).Sub(pow(k-1), one), true
	}
	us := func(k uint) (*big.Int, *big.Int, bool) { return big.NewInt(0), new(big.Int).Sub(pow(k), one), true }
	switch b.Kind() {
	case types.Int8:
		return s(8)
	case types.Int16:
		return s(16)
	case types.Int32:
		return s(32)
	case types.Int, types.Int64:
		return s(64)
	case types.Uint8:
		return us(8)
	case types.Uint16:
		return us(16)
	case types.Uint32, types.Float32:
		return us(32)
	case types.Uint, types.Uint64, types.Uintptr, types.Float64:
		return us(64)
	case types.UntypedInt, types.UntypedRune:
		return nil, nil, false
	}
	return nil, nil, false
}

func isSigned(t types.Type) bool {
	b, ok := t.Underlying().(*types.Basic)
	return ok && b.Info()&types.IsInteger != 0 && b.Info()&types.IsUnsigned == 0
}

func isFloat(t types.Type) bool {
	b, ok := t.Underlying().(*types.Basic)
	return ok && b.Info()&types.IsFloat != 0
}

func isInteger(t types.Type) bool {
	b, ok := t.Underlying().(*types.Basic)
	return ok && b.Info()&types.IsInteger != 0
}

func bitSize(t types.Type) uint {
	lo, hi, ok := intRange(t)
	if !ok {
		return 64
	}
	w := new(big.Int).Sub(hi, lo)
	return uint(w.BitLen())
}

func smtInt(n *big.Int) string {
	if n.Sign() < 0 {
		return "(- " + new(big.Int).Neg(n).String() + ")"
	}
	return n.String()
}

func smtI(n int64) string { return smtInt(big.NewInt(n)) }

// wrapTerm wraps x into the range of integer type t.
func wrapTerm(x string, t types.Type) string {
	if isFloat(t) {
		return x
	}
	lo, _, ok := intRange(t)
	if !ok {
		return x
	}
	m := new(big.Int).Lsh(big.NewInt(1), bitSize(t))
	if lo.Sign() < 0 {
		return "(wraps " + x + " " + m.String() + ")"
	}
	return "(wrapu " + x + " " + m.String() + ")"
}

func rangeFact(x string, t types.Type) string {
	lo, hi, ok := intRange(t)
	if !ok {
		return ""
	}
	return "(and (<= " + smtInt(lo) + " " + x + ") (<= " + x + " " + smtInt(hi) + "))"
}
