package main

import (
	"os"
	"regexp"
	"sort"
	"fmt"
	"go/token"
	"go/types"
	"math/big"
	"strings"

	"golang.org/x/tools/go/ssa"
)

func (g *Gen) safety(kind string, guard, formula, desc string, pos token.Pos) {
	g.oblige(g.oblName(kind), kind, []string{"SAFETY"}, guard, formula, desc, pos)
}

func (g *Gen) addrHint(v ssa.Value) string {
	switch x := v.(type) {
	case *ssa.Alloc, *ssa.FieldAddr, *ssa.Global:
		return "cell"
	case *ssa.IndexAddr:
		t := x.X.Type().Underlying()
		if p, ok := t.(*types.Pointer); ok {
			t = p.Elem().Underlying()
		}
		switch tt := t.(type) {
		case *types.Slice:
			if isByteLike(tt.Elem()) {
				return "elm"
			}
		case *types.Array:
			if isByteLike(tt.Elem()) {
				return "elm"
			}
		}
		return "cell"
	}
	return ""
}

func knownNonNil(v ssa.Value) bool {
	switch v.(type) {
	case *ssa.Alloc, *ssa.FieldAddr, *ssa.IndexAddr, *ssa.Global, *ssa.MakeMap, *ssa.MakeChan, *ssa.Function, *ssa.MakeClosure:
		return true
	}
	return false
}

func (g *Gen) nilCheck(v ssa.Value, r string, what string, pos token.Pos) {
	if knownNonNil(v) {
		return
	}
	g.safety("nil", r, "(not (= "+g.val(v).T+" nilloc))", "nil dereference: "+what, pos)
}

func (g *Gen) instr(b *ssa.BasicBlock, ins ssa.Instruction, st *State, r string) {
	switch x := ins.(type) {
	case *ssa.DebugRef:
		return
	case *ssa.Alloc:
		loc := "(mkloc " + st.A + " pnil)"
		g.ghostZero(st, st.A)
		g.defVal(x, loc)
		an := g.fresh("A")
		g.define(an, "Int", "(+ "+st.A+" 1)")
		st.A = an
		et := x.Type().Underlying().(*types.Pointer).Elem()
		if g.writeOnlyArray(x) {
			// variadic-argument arrays handed only to effect-free callees: contents are not modelled
			g.stats.Abstractions["private-vararg-array-unmodelled"]++
		} else if at, ok := et.Underlying().(*types.Array); ok && !isByteLike(at.Elem()) && at.Len() > 8 {
			// large non-byte arrays (variadic argument arrays): contents left unconstrained
			g.stats.Abstractions["large-array-zero-init-skipped"]++
		} else {
			g.storeType(st, g.vals[x].T, et, g.zeroTerm(et), "cell")
		}
	case *ssa.BinOp:
		g.binop(x, st, r)
	case *ssa.UnOp:
		g.unop(x, st, r)
	case *ssa.Convert:
		g.convert(x, st, r)
	case *ssa.ChangeType:
		g.defVal(x, g.val(x.X).T)
	case *ssa.ChangeInterface:
		g.defVal(x, g.val(x.X).T)
	case *ssa.MakeInterface:
		g.makeInterface(x, st)
	case *ssa.TypeAssert:
		g.typeAssert(x, st, r)
	case *ssa.Extract:
		tv := g.val(x.Tuple)
		if x.Index >= len(tv.Tuple) {
			panic(fmt.Errorf("extract from non-tuple %s", x.Tuple.Name()))
		}
		el := tv.Tuple[x.Index]
		g.vals[x] = el
	case *ssa.FieldAddr:
		g.nilCheck(x.X, r, "field address of "+x.X.Name(), x.Pos())
		st0 := x.X.Type().Underlying().(*types.Pointer).Elem()
		g.defVal(x, fmt.Sprintf("(fld %s %d)", g.val(x.X).T, g.u.fieldID(st0, x.Field)))
	case *ssa.Field:
		dt := g.u.structDatatype(x.X.Type())
		g.defVal(x, fmt.Sprintf("(%s_f%d %s)", dt, x.Field, g.val(x.X).T))
	case *ssa.IndexAddr:
		idx := g.val(x.Index).T
		if _, isConst := x.Index.(*ssa.Const); !isConst {
			g.instIdx = append(g.instIdx, idx)
		}
		switch tt := x.X.Type().Underlying().(type) {
		case *types.Slice:
			s := g.val(x.X).T
			g.safety("bounds", r, "(and (<= 0 "+idx+") (< "+idx+" (s_len "+s+")))", "index in range: "+x.X.Name()+"["+x.Index.Name()+"]", x.Pos())
			g.defVal(x, "(elm (s_arr "+s+") (+ (s_off "+s+") "+idx+"))")
		case *types.Pointer:
			arr := tt.Elem().Underlying().(*types.Array)
			g.nilCheck(x.X, r, "index of array pointer", x.Pos())
			g.safety("bounds", r, fmt.Sprintf("(and (<= 0 %s) (< %s %d))", idx, idx, arr.Len()), "array index in range", x.Pos())
			g.defVal(x, "(elm "+g.val(x.X).T+" "+idx+")")
		default:
			unsup("IndexAddr on %s", x.X.Type())
		}
	case *ssa.Index:
		idx := g.val(x.Index).T
		xv := g.val(x.X)
		switch tt := x.X.Type().Underlying().(type) {
		case *types.Basic: // string
			g.safety("bounds", r, "(and (<= 0 "+idx+") (< "+idx+" (seq.len "+xv.T+")))", "string index in range", x.Pos())
			v := g.defVal(x, "(seq.nth "+xv.T+" "+idx+")")
			g.guardAssume(r, rangeFact(v.T, x.Type()))
		case *types.Array:
			g.safety("bounds", r, fmt.Sprintf("(and (<= 0 %s) (< %s %d))", idx, idx, tt.Len()), "array index in range", x.Pos())
			if isByteLike(tt.Elem()) {
				v := g.defVal(x, fromRaw("(seq.nth "+xv.T+" "+idx+")", tt.Elem()))
				g.guardAssume(r, rangeFact(v.T, x.Type()))
			} else {
				g.defVal(x, "(select "+xv.T+" "+idx+")")
			}
		default:
			unsup("Index on %s", x.X.Type())
		}
	case *ssa.Slice:
		g.sliceInstr(x, st, r)
	case *ssa.MakeSlice:
		g.makeSlice(x, st, r)
	case *ssa.Store:
		if a := rootAlloc(x.Addr); a != nil && g.writeOnlyArray(a) {
			return
		}
		if !knownNonNil(x.Addr) {
			g.nilCheck(x.Addr, r, "store through "+x.Addr.Name(), x.Pos())
		}
		g.storeType(st, g.val(x.Addr).T, x.Val.Type(), g.val(x.Val).T, g.addrHint(x.Addr))
	case *ssa.Call:
		g.siteClauses(b, x, st, r, false)
		g.callInstr(x, x, st, r)
		g.siteClauses(b, x, st, r, true)
	case *ssa.Go:
		g.siteClauses(b, x, st, r, false)
		g.stats.Abstractions["go"]++
	case *ssa.Defer:
		g.siteClauses(b, x, st, r, false)
		g.defers = append(g.defers, x)
		g.deferR[x] = r
	case *ssa.RunDefers:
		g.runDefers(st, r)
	case *ssa.If:
		// "site if#k assert E": a cut in front of the k-th conditional branch (joins the paths merged so far)
		g.commSites("if", x, nil, st, r)
		return
	case *ssa.Jump:
		return
	case *ssa.Return:
		var rs []Val
		for _, v := range x.Results {
			rs = append(rs, g.val(v))
		}
		g.rets = append(g.rets, retInfo{r: r, results: rs, st: st.clone()})
	case *ssa.Panic:
		if g.con.MayPanic {
			return
		}
		g.oblige(g.oblName("panic"), "panic", []string{"SAFETY"}, r, "false", "explicit panic is unreachable", x.Pos())
	case *ssa.MakeClosure:
		id := g.u.funcID(fnKey(x.Fn.(*ssa.Function)))
		g.defVal(x, fmt.Sprint(id))
		g.closures[x] = x
	case *ssa.MakeMap:
		g.makeMap(x, st)
	case *ssa.MapUpdate:
		g.mapUpdate(x, st, r)
	case *ssa.Lookup:
		g.lookup(x, st, r)
	case *ssa.MakeChan:
		loc := "(mkloc " + st.A + " pnil)"
		g.ghostZero(st, st.A)
		g.defVal(x, loc)
		an := g.fresh("A")
		g.define(an, "Int", "(+ "+st.A+" 1)")
		st.A = an
	case *ssa.Send:
		g.stats.Abstractions["chan-send"]++
		g.commSites("send", x, []*ssa.SelectState{{Dir: types.SendOnly, Chan: x.Chan, Send: x.X}}, st, r)
	case *ssa.Select:
		g.selectInstr(x, st, r)
	case *ssa.Range:
		g.rangeInstr(x, st, r)
	case *ssa.Next:
		g.nextInstr(x, st, r)
	case *ssa.SliceToArrayPointer:
		unsup("slice to array pointer")
	default:
		unsup("instruction %T", ins)
	}
}

func pow2(k uint) *big.Int { return new(big.Int).Lsh(big.NewInt(1), k) }

// trailingZeros gives a static lower bound on the number of trailing zero bits of v.
func trailingZeros(v ssa.Value) uint {
	switch x := v.(type) {
	case *ssa.BinOp:
		switch x.Op {
		case token.SHL:
			if c, ok := x.Y.(*ssa.Const); ok && c.Value != nil {
				return uint(c.Uint64()) + trailingZeros(x.X)
			}
		case token.OR, token.ADD:
			a, b := trailingZeros(x.X), trailingZeros(x.Y)
			if a < b {
				return a
			}
			return b
		case token.AND:
			a, b := trailingZeros(x.X), trailingZeros(x.Y)
			if a > b {
				return a
			}
			return b
		}
	case *ssa.Const:
		if x.Value != nil && isInteger(x.Type()) {
			n := x.Uint64()
			if n == 0 {
				return 64
			}
			var k uint
			for n&1 == 0 {
				n >>= 1
				k++
			}
			return k
		}
	case *ssa.Convert:
		if isInteger(x.Type()) && isInteger(x.X.Type()) {
			return trailingZeros(x.X)
		}
	}
	return 0
}

func constUint(v ssa.Value) (uint64, bool) {
	c, ok := v.(*ssa.Const)
	if !ok || c.Value == nil || !isInteger(c.Type()) {
		return 0, false
	}
	if isSigned(c.Type()) && c.Int64() < 0 {
		return 0, false
	}
	return c.Uint64(), true
}

func (g *Gen) binop(x *ssa.BinOp, st *State, r string) {
	a, b := g.val(x.X), g.val(x.Y)
	t := x.X.Type()
	switch x.Op {
	case token.EQL, token.NEQ:
		var eq string
		if isFloat(t) {
			eq = g.floatEq(x.X, x.Y, a.T, b.T)
		} else {
			eq = "(= " + a.T + " " + b.T + ")"
		}
		if x.Op == token.NEQ {
			eq = "(not " + eq + ")"
		}
		g.defVal(x, eq)
		return
	case token.LSS, token.LEQ, token.GTR, token.GEQ:
		op := map[token.Token]string{token.LSS: "<", token.LEQ: "<=", token.GTR: ">", token.GEQ: ">="}[x.Op]
		switch {
		case isString(t):
			switch x.Op {
			case token.LSS:
				g.defVal(x, "(strlt "+a.T+" "+b.T+")")
			case token.GTR:
				g.defVal(x, "(strlt "+b.T+" "+a.T+")")
			case token.LEQ:
				g.defVal(x, "(not (strlt "+b.T+" "+a.T+"))")
			default:
				g.defVal(x, "(not (strlt "+a.T+" "+b.T+"))")
			}
		case isFloat(t):
			g.defVal(x, fmt.Sprintf("(fcmp %d %s %s)", int(x.Op), a.T, b.T))
		default:
			g.defVal(x, "("+op+" "+a.T+" "+b.T+")")
		}
		return
	}
	if isString(t) && x.Op == token.ADD {
		g.defVal(x, "(seq.++ "+a.T+" "+b.T+")")
		return
	}
	if isFloat(t) {
		g.defVal(x, fmt.Sprintf("(fop %d %s %s)", int(x.Op), a.T, b.T))
		v := g.vals[x]
		g.assume(rangeFact(v.T, x.Type()))
		return
	}
	if bt, ok := t.Underlying().(*types.Basic); ok && bt.Info()&types.IsBoolean != 0 {
		switch x.Op {
		case token.AND, token.LAND:
			g.defVal(x, "(and "+a.T+" "+b.T+")")
		case token.OR, token.LOR:
			g.defVal(x, "(or "+a.T+" "+b.T+")")
		default:
			unsup("bool op %s", x.Op)
		}
		return
	}
	rt := x.Type()
	bits := bitSize(rt)
	var term string
	switch x.Op {
	case token.ADD:
		term = wrapTerm("(+ "+a.T+" "+b.T+")", rt)
	case token.SUB:
		term = wrapTerm("(- "+a.T+" "+b.T+")", rt)
	case token.MUL:
		term = wrapTerm("(* "+a.T+" "+b.T+")", rt)
	case token.QUO:
		g.safety("divzero", r, "(not (= "+b.T+" 0))", "integer division by zero", x.Pos())
		if c, ok := constUint(x.Y); ok && c > 0 && !isSigned(rt) {
			term = fmt.Sprintf("(div %s %d)", a.T, c)
		} else if !isSigned(rt) {
			term = "(div " + a.T + " " + b.T + ")"
		} else {
			term = wrapTerm("(tdiv "+a.T+" "+b.T+")", rt)
		}
	case token.REM:
		g.safety("divzero", r, "(not (= "+b.T+" 0))", "integer modulo by zero", x.Pos())
		if c, ok := constUint(x.Y); ok && c > 0 && !isSigned(rt) {
			term = fmt.Sprintf("(mod %s %d)", a.T, c)
		} else if !isSigned(rt) {
			// unsigned operands are non-negative: Go's remainder is the mathematical one (b == 0 panics, see above)
			term = "(mod " + a.T + " " + b.T + ")"
		} else {
			term = "(tmod " + a.T + " " + b.T + ")"
		}
	case token.AND:
		term = g.andTerm(x, a.T, b.T, bits)
	case token.OR, token.XOR:
		ta, tb := trailingZeros(x.X), trailingZeros(x.Y)
		fn := "bor"
		if x.Op == token.XOR {
			fn = "bxor"
		}
		switch {
		case ta > 0 && ta >= tb && ta < 64:
			term = fmt.Sprintf("(ite (and (<= 0 %s) (< %s %s)) (+ %s %s) (%s %s %s))", b.T, b.T, pow2(ta), a.T, b.T, fn, a.T, b.T)
		case tb > 0 && tb < 64:
			term = fmt.Sprintf("(ite (and (<= 0 %s) (< %s %s)) (+ %s %s) (%s %s %s))", a.T, a.T, pow2(tb), a.T, b.T, fn, a.T, b.T)
		default:
			term = "(" + fn + " " + a.T + " " + b.T + ")"
		}
	case token.SHL:
		if c, ok := constUint(x.Y); ok && c < 64 {
			term = wrapTerm(fmt.Sprintf("(* %s %s)", a.T, pow2(uint(c))), rt)
		} else {
			term = "(bshl " + a.T + " " + b.T + ")"
		}
	case token.SHR:
		if c, ok := constUint(x.Y); ok && c < 64 {
			term = fmt.Sprintf("(div %s %s)", a.T, pow2(uint(c)))
		} else {
			term = "(bshr " + a.T + " " + b.T + ")"
		}
	case token.AND_NOT:
		term = "(band " + a.T + " (- (- " + b.T + ") 1))"
	default:
		unsup("binary operator %s", x.Op)
	}
	v := g.defVal(x, term)
	if strings.Contains(term, "(bor ") || strings.Contains(term, "(band ") || strings.Contains(term, "(bxor ") || strings.Contains(term, "(bshl ") || strings.Contains(term, "(bshr ") {
		g.assume(rangeFact(v.T, rt))
		g.stats.Abstractions["bitop-uninterpreted"]++
	}
}

// andTerm handles x & mask for constant masks made of one contiguous run of ones.
func (g *Gen) andTerm(x *ssa.BinOp, a, b string, bits uint) string {
	mask, ok := constUint(x.Y)
	val := a
	if !ok {
		mask, ok = constUint(x.X)
		val = b
	}
	if ok && !isSigned(x.Type()) {
		if mask == 0 {
			return "0"
		}
		lo := uint(0)
		for mask&(1<<lo) == 0 {
			lo++
		}
		run := mask >> lo
		if run&(run+1) == 0 { // contiguous ones
			n := uint(0)
			for run>>n != 0 {
				n++
			}
			if lo == 0 {
				return fmt.Sprintf("(mod %s %s)", val, pow2(n))
			}
			return fmt.Sprintf("(* (mod (div %s %s) %s) %s)", val, pow2(lo), pow2(n), pow2(lo))
		}
	}
	return "(band " + a + " " + b + ")"
}

func (g *Gen) floatEq(xa, xb ssa.Value, a, b string) string {
	zeroEq := func(t string, typ types.Type) string {
		sign := "9223372036854775808"
		if typ.Underlying().(*types.Basic).Kind() == types.Float32 {
			sign = "2147483648"
		}
		return "(or (= " + t + " 0) (= " + t + " " + sign + "))"
	}
	if c, ok := xb.(*ssa.Const); ok && c.Value != nil && g.constVal(c).T == "0" {
		return zeroEq(a, xa.Type())
	}
	if c, ok := xa.(*ssa.Const); ok && c.Value != nil && g.constVal(c).T == "0" {
		return zeroEq(b, xb.Type())
	}
	return fmt.Sprintf("(fcmp %d %s %s)", int(token.EQL), a, b)
}

func (g *Gen) unop(x *ssa.UnOp, st *State, r string) {
	switch x.Op {
	case token.MUL: // load
		if !knownNonNil(x.X) {
			g.nilCheck(x.X, r, "load through "+x.X.Name(), x.Pos())
		}
		et := x.Type()
		t := g.loadTypeH(st, g.val(x.X).T, et, g.addrHint(x.X))
		v := g.defVal(x, t)
		g.assume(g.typeFacts(st, v.T, et))
		if gl, ok := x.X.(*ssa.Global); ok {
			if c, isConst := g.prog.constGlobals[gl]; isConst {
				g.assume("(= " + v.T + " " + g.constVal(c).T + ")")
				g.stats.TrustedUsed["package variable "+gl.String()+" is never reassigned"] = true
			}
			name := gl.Name()
			if gl.Pkg != nil {
				name = gl.Pkg.Pkg.Path() + "." + name
			}
			if f, ok := g.prog.specs.GlobalFacts[name]; ok {
				env := g.envFor(map[string]Val{"value": v}, st, st)
				g.assume(env.trBool(f))
				g.stats.TrustedUsed["globalfact "+name] = true
			}
		}
	case token.NOT:
		g.defVal(x, "(not "+g.val(x.X).T+")")
	case token.SUB:
		if isFloat(x.Type()) {
			g.defVal(x, fmt.Sprintf("(fop %d 0 %s)", int(token.SUB), g.val(x.X).T))
			return
		}
		g.defVal(x, wrapTerm("(- "+g.val(x.X).T+")", x.Type()))
	case token.XOR:
		if isSigned(x.Type()) {
			g.defVal(x, "(- (- "+g.val(x.X).T+") 1)")
		} else {
			_, hi, _ := intRange(x.Type())
			g.defVal(x, "(- "+hi.String()+" "+g.val(x.X).T+")")
		}
	case token.ARROW:
		g.stats.Abstractions["chan-recv"]++
		if x.CommaOk {
			v := g.freshTupleElem(x, st, x.Type().(*types.Tuple).At(0).Type(), "rcv")
			ok := g.freshConst("rcvok", "Bool")
			g.vals[x] = Val{Tuple: []Val{v, {T: ok, Sort: "Bool"}}}
		} else {
			g.freshVal(x, st, r)
		}
	default:
		unsup("unary operator %s", x.Op)
	}
}

func (g *Gen) freshTupleElem(v ssa.Value, st *State, t types.Type, prefix string) Val {
	s := g.u.sortOf(t)
	n := g.freshConst(prefix, s)
	g.assume(g.typeFacts(st, n, t))
	return Val{T: n, Sort: s, GoT: t}
}

func (g *Gen) convert(x *ssa.Convert, st *State, r string) {
	from, to := x.X.Type(), x.Type()
	a := g.val(x.X)
	fb, fIsB := from.Underlying().(*types.Basic)
	tb, tIsB := to.Underlying().(*types.Basic)
	switch {
	case fIsB && tIsB && fb.Info()&types.IsInteger != 0 && tb.Info()&types.IsInteger != 0:
		flo, fhi, _ := intRange(from)
		tlo, thi, _ := intRange(to)
		if flo != nil && tlo != nil && flo.Cmp(tlo) >= 0 && fhi.Cmp(thi) <= 0 {
			g.defVal(x, a.T)
		} else {
			g.defVal(x, wrapTerm(a.T, to))
		}
	case fIsB && tIsB && fb.Info()&types.IsInteger != 0 && tb.Info()&types.IsFloat != 0:
		v := g.defVal(x, fmt.Sprintf("(i2f %d %s)", bitSize(to), a.T))
		g.assume(rangeFact(v.T, to))
	case fIsB && tIsB && fb.Info()&types.IsFloat != 0 && tb.Info()&types.IsInteger != 0:
		v := g.defVal(x, fmt.Sprintf("(f2i %d %s)", bitSize(to), a.T))
		g.assume(rangeFact(v.T, to))
	case fIsB && tIsB && fb.Info()&types.IsFloat != 0 && tb.Info()&types.IsFloat != 0:
		if fb.Kind() == tb.Kind() {
			g.defVal(x, a.T)
		} else if tb.Kind() == types.Float64 {
			v := g.defVal(x, "(f32to64 "+a.T+")")
			g.assume(rangeFact(v.T, to))
		} else {
			v := g.defVal(x, "(f64to32 "+a.T+")")
			g.assume(rangeFact(v.T, to))
		}
	case isString(to) && isByteSlice(from):
		g.defVal(x, "(bytesOf "+g.heap(st, "bytes")+" "+a.T+")")
	case isByteSlice(to) && isString(from):
		arr := "(mkloc " + st.A + " pnil)"
		g.ghostZero(st, st.A)
		an := g.fresh("A")
		g.define(an, "Int", "(+ "+st.A+" 1)")
		st.A = an
		g.setHeap(st, "bytes", "(store "+g.heap(st, "bytes")+" "+arr+" "+a.T+")")
		g.defVal(x, "(mkslice "+arr+" 0 (seq.len "+a.T+") (seq.len "+a.T+"))")
	case isString(to) && fIsB && fb.Info()&types.IsInteger != 0:
		g.stats.Abstractions["rune-to-string"]++
		g.freshVal(x, st, r)
	case g.u.sortOf(from) == "Loc" && g.u.sortOf(to) == "Loc":
		g.defVal(x, a.T) // pointer <-> unsafe.Pointer: same location
		g.stats.Abstractions["unsafe-pointer-cast"]++
	case isString(to) && isString(from):
		g.defVal(x, a.T)
	default:
		unsup("conversion %s -> %s", from, to)
	}
}

func (g *Gen) boxFns(sort string) (box, unbox string) {
	n := sanitize(sort)
	box, unbox = "box_"+n, "unbox_"+n
	if !g.declared[box] {
		g.declared[box] = true
		g.decls = append(g.decls, fmt.Sprintf("(declare-fun %s (%s) Loc)", box, sort), fmt.Sprintf("(declare-fun %s (Loc) %s)", unbox, sort))
	}
	return
}

func (g *Gen) makeInterface(x *ssa.MakeInterface, st *State) {
	a := g.val(x.X)
	tid := g.u.typeID(x.X.Type())
	if a.Sort == "Loc" {
		g.defVal(x, fmt.Sprintf("(mkiface %d %s)", tid, a.T))
		return
	}
	box, unbox := g.boxFns(a.Sort)
	g.defVal(x, fmt.Sprintf("(mkiface %d (%s %s))", tid, box, a.T))
	g.assume(fmt.Sprintf("(= (%s (%s %s)) %s)", unbox, box, a.T, a.T))
	g.assume(fmt.Sprintf("(< (l_obj (%s %s)) 0)", box, a.T)) // boxed values live outside the allocated object space
}

func (g *Gen) typeAssert(x *ssa.TypeAssert, st *State, r string) {
	a := g.val(x.X)
	at := x.AssertedType
	var ok, val string
	if _, isIface := at.Underlying().(*types.Interface); isIface {
		okc := g.freshConst("taok", "Bool")
		g.assume("(=> " + okc + " (not (= " + a.T + " nilif)))")
		if it := at.Underlying().(*types.Interface); it.NumMethods() == 0 || types.AssignableTo(x.X.Type(), at) {
			// the static type already implements the asserted interface: succeeds iff non-nil
			g.assume("(= " + okc + " (not (= " + a.T + " nilif)))")
		}
		ok, val = okc, a.T
	} else {
		tid := g.u.typeID(at)
		ok = fmt.Sprintf("(= (i_typ %s) %d)", a.T, tid)
		s := g.u.sortOf(at)
		if s == "Loc" {
			val = "(i_val " + a.T + ")"
		} else {
			_, unbox := g.boxFns(s)
			val = "(" + unbox + " (i_val " + a.T + "))"
		}
	}
	if x.CommaOk {
		okn := g.fresh("taok")
		g.define(okn, "Bool", ok)
		vn := g.fresh("taval")
		s := g.u.sortOf(at)
		g.define(vn, s, "(ite "+okn+" "+val+" "+g.zeroTerm(at)+")")
		if tf := g.typeFacts(st, vn, at); tf != "" {
			g.assume("(=> " + okn + " " + tf + ")")
		}
		g.vals[x] = Val{Tuple: []Val{{T: vn, Sort: s, GoT: at}, {T: okn, Sort: "Bool"}}}
		return
	}
	g.safety("typeassert", r, ok, "type assertion succeeds", x.Pos())
	v := g.defVal(x, val)
	g.guardAssume(r, g.typeFacts(st, v.T, at))
}

func (g *Gen) sliceInstr(x *ssa.Slice, st *State, r string) {
	xv := g.val(x.X)
	opt := func(v ssa.Value, def string) string {
		if v == nil {
			return def
		}
		return g.val(v).T
	}
	switch tt := x.X.Type().Underlying().(type) {
	case *types.Basic: // string
		lo := opt(x.Low, "0")
		hi := opt(x.High, "(seq.len "+xv.T+")")
		g.safety("slicebounds", r, "(and (<= 0 "+lo+") (<= "+lo+" "+hi+") (<= "+hi+" (seq.len "+xv.T+")))", "string slice bounds", x.Pos())
		g.defVal(x, "(sub "+xv.T+" "+lo+" "+hi+")")
	case *types.Slice:
		lo := opt(x.Low, "0")
		hi := opt(x.High, "(s_len "+xv.T+")")
		mx := opt(x.Max, "(s_cap "+xv.T+")")
		g.safety("slicebounds", r, "(and (<= 0 "+lo+") (<= "+lo+" "+hi+") (<= "+hi+" "+mx+") (<= "+mx+" (s_cap "+xv.T+")))", "slice bounds: "+x.X.Name()+"["+lo+":"+hi+"]", x.Pos())
		rv := g.defVal(x, "(mkslice (s_arr "+xv.T+") (+ (s_off "+xv.T+") "+lo+") (- "+hi+" "+lo+") (- "+mx+" "+lo+"))")
		if isByteSlice(x.X.Type()) {
			// derived fact: re-slicing within the length selects the corresponding sub-sequence
			hb := g.heap(st, "bytes")
			g.guardAssume(r, "(=> (<= "+hi+" (s_len "+xv.T+")) (= (bytesOf "+hb+" "+rv.T+") (sub (bytesOf "+hb+" "+xv.T+") "+lo+" "+hi+")))")
		}
	case *types.Pointer:
		arr := tt.Elem().Underlying().(*types.Array)
		g.nilCheck(x.X, r, "slice of array pointer", x.Pos())
		n := fmt.Sprint(arr.Len())
		lo := opt(x.Low, "0")
		hi := opt(x.High, n)
		mx := opt(x.Max, n)
		if x.Low != nil || x.High != nil || x.Max != nil {
			g.safety("slicebounds", r, "(and (<= 0 "+lo+") (<= "+lo+" "+hi+") (<= "+hi+" "+mx+") (<= "+mx+" "+n+"))", "array slice bounds", x.Pos())
		}
		g.defVal(x, "(mkslice "+xv.T+" "+lo+" (- "+hi+" "+lo+") (- "+mx+" "+lo+"))")
	default:
		unsup("slice of %s", x.X.Type())
	}
}

func (g *Gen) makeSlice(x *ssa.MakeSlice, st *State, r string) {
	ln, cp := g.val(x.Len).T, g.val(x.Cap).T
	g.oblige(g.oblName("makelen"), "makelen", []string{"SAFETY"}, r, "(and (<= 0 "+ln+") (<= "+ln+" "+cp+"))", "make: 0 <= len <= cap ("+x.Len.Name()+")", x.Pos())
	g.allocBound(x, st, r, cp)
	arr := "(mkloc " + st.A + " pnil)"
	g.ghostZero(st, st.A)
	an := g.fresh("A")
	g.define(an, "Int", "(+ "+st.A+" 1)")
	st.A = an
	if isByteSlice(x.Type()) {
		g.setHeap(st, "bytes", "(store "+g.heap(st, "bytes")+" "+arr+" (zeros "+cp+"))")
	}
	g.defVal(x, "(mkslice "+arr+" 0 "+ln+" "+cp+")")
}

// allocBound: in functions whose contract declares a decode budget
// ("let allocbudget = <int expr>"), every make must stay within it.
func (g *Gen) allocBound(x *ssa.MakeSlice, st *State, r string, cp string) {
	b, ok := g.penv["allocbudget"]
	if !ok {
		return
	}
	el := x.Type().Underlying().(*types.Slice).Elem()
	sz := g.prog.sizes.Sizeof(el)
	g.oblige(g.oblName("allocbound"), "allocbound", []string{"SAFETY", "ALLOC"}, r, fmt.Sprintf("(<= (* %d %s) %s)", sz, cp, b.T),
		"allocation is bounded by the declared budget (bytes remaining in the input)", x.Pos())
	g.obls[len(g.obls)-1].CexExtra = fmt.Sprintf("(assert (>= (* %d %s) 16777216))", sz, cp)
}

func (g *Gen) makeMap(x *ssa.MakeMap, st *State) {
	m := x.Type().Underlying().(*types.Map)
	if x.Reserve != nil {
		if b, ok := g.penv["allocbudget"]; ok {
			rv := g.val(x.Reserve).T
			r := g.blockR[x.Block()]
			if r == "" {
				r = "true"
			}
			g.oblige(g.oblName("allocbound"), "allocbound", []string{"SAFETY", "ALLOC"}, r, "(<= "+rv+" "+b.T+")",
				"map size hint is bounded by the declared budget (input length)", x.Pos())
			g.obls[len(g.obls)-1].CexExtra = "(assert (>= " + rv + " 1000000))"
		}
	}
	loc := "(mkloc " + st.A + " pnil)"
	g.ghostZero(st, st.A)
	g.defVal(x, loc)
	an := g.fresh("A")
	g.define(an, "Int", "(+ "+st.A+" 1)")
	st.A = an
	dk, _, lk := g.mapHeapKinds(m)
	ks := g.u.sortOf(m.Key())
	g.setHeap(st, dk, fmt.Sprintf("(store %s %s ((as const (Array %s Bool)) false))", g.heap(st, dk), g.vals[x].T, ks))
	g.setHeap(st, lk, fmt.Sprintf("(store %s %s 0)", g.heap(st, lk), g.vals[x].T))
}

func (g *Gen) mapUpdate(x *ssa.MapUpdate, st *State, r string) {
	m := x.Map.Type().Underlying().(*types.Map)
	mv := g.val(x.Map).T
	g.safety("nilmap", r, "(not (= "+mv+" nilloc))", "assignment to entry in nil map", x.Pos())
	dk, vk, lk := g.mapHeapKinds(m)
	k, v := g.val(x.Key).T, g.val(x.Value).T
	had := "(select (select " + g.heap(st, dk) + " " + mv + ") " + k + ")"
	g.setHeap(st, lk, "(store "+g.heap(st, lk)+" "+mv+" (ite "+had+" (select "+g.heap(st, lk)+" "+mv+") (+ 1 (select "+g.heap(st, lk)+" "+mv+"))))")
	g.setHeap(st, dk, "(store "+g.heap(st, dk)+" "+mv+" (store (select "+g.heap(st, dk)+" "+mv+") "+k+" true))")
	g.setHeap(st, vk, "(store "+g.heap(st, vk)+" "+mv+" (store (select "+g.heap(st, vk)+" "+mv+") "+k+" "+v+"))")
}

func (g *Gen) lookup(x *ssa.Lookup, st *State, r string) {
	if m, ok := x.X.Type().Underlying().(*types.Map); ok {
		mv := g.val(x.X).T
		dk, vk, _ := g.mapHeapKinds(m)
		k := g.val(x.Index).T
		// a nil map reads as empty
		has := "(and (not (= " + mv + " nilloc)) (select (select " + g.heap(st, dk) + " " + mv + ") " + k + "))"
		val := "(ite " + has + " (select (select " + g.heap(st, vk) + " " + mv + ") " + k + ") " + g.zeroTerm(m.Elem()) + ")"
		if x.CommaOk {
			hn := g.fresh("has")
			g.define(hn, "Bool", has)
			vn := g.fresh("mv")
			g.define(vn, g.u.sortOf(m.Elem()), "(ite "+hn+" (select (select "+g.heap(st, vk)+" "+mv+") "+k+") "+g.zeroTerm(m.Elem())+")")
			g.assume(g.typeFacts(st, vn, m.Elem()))
			g.vals[x] = Val{Tuple: []Val{{T: vn, Sort: g.u.sortOf(m.Elem()), GoT: m.Elem()}, {T: hn, Sort: "Bool"}}}
			return
		}
		v := g.defVal(x, val)
		g.assume(g.typeFacts(st, v.T, m.Elem()))
		return
	}
	// string index
	xv, idx := g.val(x.X), g.val(x.Index).T
	g.safety("bounds", r, "(and (<= 0 "+idx+") (< "+idx+" (seq.len "+xv.T+")))", "string index in range", x.Pos())
	v := g.defVal(x, "(seq.nth "+xv.T+" "+idx+")")
	g.guardAssume(r, rangeFact(v.T, x.Type()))
}

func (g *Gen) selectInstr(x *ssa.Select, st *State, r string) {
	g.stats.Abstractions["select"]++
	// result tuple: (index int, recvOk bool, recv values...)
	idx := g.freshConst("selidx", "Int")
	lo := "0"
	if !x.Blocking {
		lo = "(- 1)"
	}
	g.assume(fmt.Sprintf("(and (<= %s %s) (< %s %d))", lo, idx, idx, len(x.States)))
	if !x.Blocking {
		// the default case is taken only if no receive case is ready (ghost *.chready on channels)
		if gg, ok := g.prog.specs.Ghosts["*.chready"]; ok {
			k := g.u.ghostKind(gg.Type)
			for _, s := range x.States {
				if s.Dir == types.RecvOnly {
					ch := g.val(s.Chan).T
					g.assume(fmt.Sprintf("(=> (= %s (- 1)) (not (select %s (fld %s %s))))", idx, g.heap(st, k), ch, smtI(int64(gg.ID))))
				}
			}
		}
	}
	g.selectSites(x, st, r)
	tup := []Val{{T: idx, Sort: "Int"}, {T: g.freshConst("selok", "Bool"), Sort: "Bool"}}
	tt := x.Type().(*types.Tuple)
	for i := 2; i < tt.Len(); i++ {
		tup = append(tup, g.freshTupleElem(x, st, tt.At(i).Type(), "selrecv"))
	}
	g.vals[x] = Val{Tuple: tup}
}

// commSites applies "site select#k ..." / "site send#k ..." clauses: assertions and ghost updates attached
// to a communication statement. $ch<i> is the channel of case i, $val<i> the value offered by a send case
// (a plain send statement is case 0).
func (g *Gen) selectSites(x *ssa.Select, st *State, r string) {
	g.commSites("select", x, x.States, st, r)
}

func (g *Gen) commSites(kind string, x ssa.Instruction, states []*ssa.SelectState, st *State, r string) {
	if g.con == nil || len(g.con.Sites) == 0 {
		return
	}
	var env *Env
	for _, sc := range g.con.Sites {
		if sc.Match != kind {
			continue
		}
		ord, ok := g.siteOrd(kind, x)
		if !ok || ord != sc.Ord {
			continue
		}
		if env == nil {
			b := x.Block()
			idx := 0
			for i, ins := range b.Instrs {
				if ins == x {
					idx = i
				}
			}
			vars := g.namesAt(b, idx)
			for i, s := range states {
				if v, ok := g.valOpt(s.Chan); ok {
					vars[fmt.Sprintf("$ch%d", i)] = v
				}
				if s.Send != nil {
					if v, ok := g.valOpt(s.Send); ok {
						vars[fmt.Sprintf("$val%d", i)] = v
					}
				}
			}
			env = g.envFor(vars, st, g.old)
		}
		switch sc.Kind {
		case "assert":
			t := g.mustClause(env, sc.E, "site "+kind)
			name := fmt.Sprintf("%s/site:%s#%d", shortKey(g.key), kind, sc.Ord)
			g.counters[name]++
			if g.counters[name] > 1 {
				name = fmt.Sprintf("%s@%d", name, g.counters[name]-1)
			}
			g.oblige(name, "site-assert", sc.Tags, r, t, sc.Src, x.Pos())
		case "ghost", "ghostafter":
			lv := env.tr(sc.LHS)
			if !lv.isLv() || lv.GKind == "" {
				panic(fmt.Errorf("site ghost update: %s is not a ghost location", sc.LHS))
			}
			rv := env.tr(sc.E)
			var t string
			if seqLike(rv) {
				t = env.asSeq(rv)
			} else {
				t = env.rv(rv).T
			}
			g.setHeap(st, lv.GKind, "(ite "+r+" (store "+g.heap(st, lv.GKind)+" "+lv.Addr+" "+t+") "+g.heap(st, lv.GKind)+")")
		}
	}
}

func (g *Gen) rangeInstr(x *ssa.Range, st *State, r string) {
	// iteration over a map or string: abstract iterator; Next yields arbitrary members
	g.vals[x] = Val{T: "0", Sort: "Int", GoT: x.X.Type()}
	g.stats.Abstractions["range-iterator"]++
	m, isMap := x.X.Type().Underlying().(*types.Map)
	if !isMap || len(g.inlining) > 0 {
		return
	}
	// Map iteration keeps a ghost set of the keys produced so far (contracts: visited(n, k) for the n-th map
	// range of the function in source order). It lives, as a key set, in a ghost object allocated here; the
	// domain of the map at this point is remembered for the completeness fact at the end of the iteration.
	dk, _, _ := g.mapHeapKinds(m)
	ks := g.u.sortOf(m.Key())
	sk := g.seenKind(m)
	loc := g.fresh("rseen")
	g.declare(loc, "Loc")
	g.assume("(= " + loc + " (mkloc " + st.A + " pnil))")
	an := g.fresh("A")
	g.define(an, "Int", "(+ "+st.A+" 1)")
	st.A = an
	g.setHeap(st, sk, fmt.Sprintf("(store %s %s ((as const (Array %s Bool)) false))", g.heap(st, sk), loc, ks))
	d0 := g.fresh("rdom0")
	g.declare(d0, "(Array "+ks+" Bool)")
	g.assume("(= " + d0 + " (select " + g.heap(st, dk) + " " + g.val(x.X).T + "))")
	if g.mrSeen == nil {
		g.mrSeen = map[*ssa.Range]string{}
		g.mrDom0 = map[*ssa.Range]string{}
	}
	g.mrSeen[x] = loc
	g.mrDom0[x] = d0
}

// seenKind: the ghost heap kind that holds the produced-keys sets of the ranges over maps with this key sort
// (kept apart from the maps' own domain heap, so that iterating changes nothing the map contracts speak about).
func (g *Gen) seenKind(m *types.Map) string {
	ks := g.u.sortOf(m.Key())
	k := "mrseen_" + sanitize(ks)
	g.u.kindSort[k] = "(Array " + ks + " Bool)"
	return k
}

// selectsInOrder: the select statements of the function under contract in source order.
func (g *Gen) selectsInOrder() []*ssa.Select {
	var out []*ssa.Select
	for _, b := range g.topFn.Blocks {
		for _, ins := range b.Instrs {
			if s, ok := ins.(*ssa.Select); ok {
				out = append(out, s)
			}
		}
	}
	sort.SliceStable(out, func(a, b int) bool { return out[a].Pos() < out[b].Pos() })
	return out
}

// mapRanges: the map range instructions of the function under contract in source order.
func (g *Gen) mapRanges() []*ssa.Range {
	var rs []*ssa.Range
	for _, b := range g.topFn.Blocks {
		for _, ins := range b.Instrs {
			if r, ok := ins.(*ssa.Range); ok {
				if _, isMap := r.X.Type().Underlying().(*types.Map); isMap {
					rs = append(rs, r)
				}
			}
		}
	}
	sort.SliceStable(rs, func(a, b int) bool { return rs[a].Pos() < rs[b].Pos() })
	return rs
}

func (g *Gen) nextInstr(x *ssa.Next, st *State, r string) {
	rng := x.Iter.(*ssa.Range)
	ok := g.freshConst("nextok", "Bool")
	tt := x.Type().(*types.Tuple)
	kty := tt.At(1).Type()
	if b, isB := kty.Underlying().(*types.Basic); isB && b.Kind() == types.Invalid {
		// `for _, v := range m`: the key is not used by the program, the model still needs it
		if m, isMap := rng.X.Type().Underlying().(*types.Map); isMap {
			kty = m.Key()
		} else {
			kty = types.Typ[types.Int]
		}
	}
	k := g.freshTupleElem(x, st, kty, "nextk")
	var v Val
	if m, isMap := rng.X.Type().Underlying().(*types.Map); isMap {
		mv := g.val(rng.X).T
		dk, vk, _ := g.mapHeapKinds(m)
		g.assume("(=> " + ok + " (and (not (= " + mv + " nilloc)) (select (select " + g.heap(st, dk) + " " + mv + ") " + k.T + ")))")
		if loc, have := g.mrSeen[rng]; have {
			// no key is produced twice; a produced key joins the ghost set; when the iteration ends, every key
			// that was in the map when it started and still is has been produced - provided the loop cannot put
			// keys into a map of this type (an entry created during the iteration may be skipped, so may one
			// that was removed and created again)
			sk := g.seenKind(m)
			h := g.heap(st, sk)
			seen := "(select " + h + " " + loc + ")"
			g.assume("(=> " + ok + " (not (select " + seen + " " + k.T + ")))")
			noIns := false
			for _, li := range g.inLoop[x.Block()] {
				if li.head == x.Block() {
					noIns = !li.allHav && !li.mapIns[dk]
					for _, mt := range li.mapInsTypes {
						if types.Identical(mt, m) {
							noIns = false
						}
					}
				}
			}
			if noIns {
				ks := g.u.sortOf(m.Key())
				cur := "(select " + g.heap(st, dk) + " " + mv + ")"
				g.assume("(=> (not " + ok + ") (forall ((q!k " + ks + ")) (! (=> (and (select " + cur + " q!k) (select " + g.mrDom0[rng] + " q!k)) (select " + seen + " q!k)) :pattern ((select " + cur + " q!k)) :pattern ((select " + seen + " q!k)))))")
			} else {
				g.stats.Abstractions["map-range-without-completeness"]++
			}
			g.setHeap(st, sk, "(ite "+ok+" (store "+h+" "+loc+" (store "+seen+" "+k.T+" true)) "+h+")")
		}
		vt := tt.At(2).Type()
		if b, isB := vt.Underlying().(*types.Basic); isB && b.Kind() == types.Invalid {
			v = Val{T: "0", Sort: "Int"}
		} else {
			vn := g.fresh("nextv")
			g.define(vn, g.u.sortOf(m.Elem()), "(select (select "+g.heap(st, vk)+" "+mv+") "+k.T+")")
			g.assume(g.typeFacts(st, vn, m.Elem()))
			v = Val{T: vn, Sort: g.u.sortOf(m.Elem()), GoT: m.Elem()}
		}
	} else {
		// string: key = byte index, value = rune (abstract)
		s := g.val(rng.X).T
		g.assume("(=> " + ok + " (and (<= 0 " + k.T + ") (< " + k.T + " (seq.len " + s + "))))")
		v = g.freshTupleElem(x, st, tt.At(2).Type(), "nextr")
	}
	g.vals[x] = Val{Tuple: []Val{{T: ok, Sort: "Bool"}, k, v}}
}

// siteKey names an instruction for the "site" clauses: the callee of a call/go/defer, or the kind of a
// select, send or conditional branch.
func siteKey(x ssa.Instruction) string {
	switch i := x.(type) {
	case *ssa.Select:
		return "select"
	case *ssa.Send:
		return "send"
	case *ssa.If:
		return "if"
	case ssa.CallInstruction:
		cc := i.Common()
		key := ""
		switch {
		case cc.IsInvoke():
			key = ifaceMethodKey(cc.Value.Type(), cc.Method)
		case cc.StaticCallee() != nil:
			key = fnKey(cc.StaticCallee())
		default:
			if bi, isB := cc.Value.(*ssa.Builtin); isB {
				key = "builtin:" + bi.Name()
			} else {
				key = "dynamic"
			}
		}
		if _, isGo := x.(*ssa.Go); isGo {
			key = "go " + key
		}
		return key
	}
	return ""
}

// sitePos: a source position for ordering sites. A conditional branch has none of its own: it is placed at its
// condition, else at the last positioned instruction in front of it in its block, else (the test of a range loop)
// at the first positioned instruction of the branch it guards.
func sitePos(x ssa.Instruction, depth int) token.Pos {
	if p := x.Pos(); p.IsValid() {
		return p
	}
	if i, ok := x.(*ssa.If); ok {
		if p := i.Cond.Pos(); p.IsValid() {
			return p
		}
		b := i.Block()
		for k := len(b.Instrs) - 2; k >= 0; k-- {
			if _, isPhi := b.Instrs[k].(*ssa.Phi); isPhi {
				continue // a phi carries the position of the variable's declaration
			}
			if p := b.Instrs[k].Pos(); p.IsValid() {
				return p
			}
		}
		if depth < 3 && len(b.Succs) > 0 {
			for _, ins := range b.Succs[0].Instrs {
				if p := sitePos(ins, depth+1); p.IsValid() {
					return p
				}
			}
		}
	}
	return token.NoPos
}

// siteOrd: the ordinal of instruction x among the instructions of the function under contract that the
// match string selects, in source order (position, then block and instruction index). Instructions of
// inlined callees are not sites of the function under contract.
func (g *Gen) siteOrd(match string, x ssa.Instruction) (int, bool) {
	if g.siteSeen == nil {
		g.siteSeen = map[string]map[ssa.Instruction]int{}
	}
	ck := "site:" + match
	m, have := g.siteSeen[ck]
	if !have {
		m = map[ssa.Instruction]int{}
		exact := match == "select" || match == "send" || match == "if"
		type cand struct {
			ins  ssa.Instruction
			b, i int
		}
		var cs []cand
		for _, b := range g.topFn.Blocks {
			for i, ins := range b.Instrs {
				k := siteKey(ins)
				if k == "" {
					continue
				}
				switch ins.(type) {
				case *ssa.Select, *ssa.Send, *ssa.If:
					if k != match {
						continue
					}
				default:
					if exact || (match != "*" && !strings.Contains(k, match)) {
						continue
					}
				}
				cs = append(cs, cand{ins, b.Index, i})
			}
		}
		sort.SliceStable(cs, func(a, b int) bool {
			pa, pb := sitePos(cs[a].ins, 0), sitePos(cs[b].ins, 0)
			if pa != pb {
				return pa < pb
			}
			if cs[a].b != cs[b].b {
				return cs[a].b < cs[b].b
			}
			return cs[a].i < cs[b].i
		})
		for i, c := range cs {
			m[c.ins] = i
			if os.Getenv("GOVC_DEBUG") != "" {
				fmt.Fprintf(os.Stderr, "debug: site %s#%d = block %d instr %d at %v\n", match, i, c.b, c.i, g.prog.fset.Position(sitePos(c.ins, 0)))
			}
		}
		g.siteSeen[ck] = m
	}
	o, ok := m[x]
	return o, ok
}

// siteClauses applies the contract's "site" clauses that match this call/go/defer instruction.
func (g *Gen) siteClauses(b *ssa.BasicBlock, ins ssa.CallInstruction, st *State, r string, after bool) {
	if len(g.con.Sites) == 0 {
		return
	}
	cc := ins.Common()
	key := siteKey(ins)
	idx := -1
	for i, x := range b.Instrs {
		if x == ins.(ssa.Instruction) {
			idx = i
		}
	}
	var env *Env
	for _, sc := range g.con.Sites {
		if sc.Match != "*" && !strings.Contains(key, sc.Match) {
			continue
		}
		ord, ok := g.siteOrd(sc.Match, ins.(ssa.Instruction))
		if !ok || (ord != sc.Ord && sc.Match != "*") {
			continue // `site *#0`: every call of the function (clauses apply in the order they are written)
		}
		if after != (sc.Kind == "ghostafter") {
			continue
		}
		if env == nil {
			vars := g.namesAt(b, idx)
			// $sel<k>: the index of the case the k-th select statement of the function (source order) has taken,
			// once that select has been translated (on a path that did not pass it the value is unconstrained)
			for k, sel := range g.selectsInOrder() {
				if v, have := g.vals[sel]; have && len(v.Tuple) > 0 {
					vars[fmt.Sprintf("$sel%d", k)] = v.Tuple[0]
				}
			}
			// $callee: the function value of a dynamic call
			if !cc.IsInvoke() && cc.StaticCallee() == nil {
				if v, ok := g.valOpt(cc.Value); ok {
					vars["$callee"] = v
				}
			}
			// call arguments by the callee's formal names are also visible as $0, $1, ...
			for i, a := range cc.Args {
				if v, ok := g.valOpt(a); ok {
					vars[fmt.Sprintf("$%d", i)] = v
				}
			}
			if after {
				if v, ok := ins.(ssa.Value); ok {
					if rv, have := g.vals[v]; have {
						if rv.Tuple != nil {
							for i, t := range rv.Tuple {
								vars[fmt.Sprintf("$ret%d", i)] = t
							}
						} else {
							vars["$ret"] = rv
						}
					}
				}
			}
			env = g.envFor(vars, st, g.old)
		}
		switch sc.Kind {
		case "assert":
			t := g.mustClause(env, sc.E, "site "+sc.Match)
			name := fmt.Sprintf("%s/site:%s#%d", shortKey(g.key), sc.Match, sc.Ord)
			g.counters[name]++
			if g.counters[name] > 1 {
				name = fmt.Sprintf("%s@%d", name, g.counters[name]-1)
			}
			g.oblige(name, "site-assert", sc.Tags, r, t, sc.Src, ins.Pos())
		case "ghost", "ghostafter":
			lv := env.tr(sc.LHS)
			if !lv.isLv() || lv.GKind == "" {
				panic(fmt.Errorf("site ghost update: %s is not a ghost location", sc.LHS))
			}
			rv := env.tr(sc.E)
			var t string
			if seqLike(rv) {
				t = env.asSeq(rv)
			} else {
				t = env.rv(rv).T
			}
			// guarded update: only when control reaches the site
			g.setHeap(st, lv.GKind, "(ite "+r+" (store "+g.heap(st, lv.GKind)+" "+lv.Addr+" "+t+") "+g.heap(st, lv.GKind)+")")
		}
	}
}

var variadicArgRe = regexp.MustCompile(`\$\d+\[`)

// writeOnlyArray: a private array allocation (variadic argument array) that the function itself never reads.
func (g *Gen) writeOnlyArray(a *ssa.Alloc) bool {
	if g.con != nil && g.con.ArgsOnly {
		return false // call-site assertions may speak about the variadic arguments: model the array
	}
	if g.con != nil {
		for _, sc := range g.con.Sites {
			if variadicArgRe.MatchString(sc.Src) {
				return false // a site assertion indexes a variadic argument ($k[i]): model the arrays
			}
		}
	}
	if _, isArr := a.Type().Underlying().(*types.Pointer).Elem().Underlying().(*types.Array); !isArr {
		return false
	}
	if !g.privateAlloc(a) {
		return false
	}
	var noLoad func(v ssa.Value, d int) bool
	noLoad = func(v ssa.Value, d int) bool {
		if d > 4 || v.Referrers() == nil {
			return false
		}
		for _, r := range *v.Referrers() {
			switch x := r.(type) {
			case *ssa.UnOp:
				return false
			case *ssa.IndexAddr:
				if !noLoad(x, d+1) {
					return false
				}
			case *ssa.FieldAddr:
				if !noLoad(x, d+1) {
					return false
				}
			}
		}
		return true
	}
	return noLoad(a, 0)
}
