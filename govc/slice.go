package main

// Query slicing: a proof obligation is first attempted on the cone of influence of its goal
// (definitions reachable from the goal, plus assertions that share a program variable with
// it). Dropping assertions can only weaken the context, so an "unsat" answer on the slice is
// a valid discharge; any other answer falls back to the full query.

import (
	"strings"
)

func tokensOf(l string) []string {
	var out []string
	i := 0
	for i < len(l) {
		c := l[i]
		if c == '(' || c == ')' || c == ' ' || c == '\t' {
			i++
			continue
		}
		if c == ';' {
			break
		}
		j := i
		for j < len(l) && l[j] != '(' && l[j] != ')' && l[j] != ' ' && l[j] != '\t' {
			j++
		}
		out = append(out, l[i:j])
		i = j
	}
	return out
}

func isStructural(sym string) bool {
	// reachability booleans, edges, heaps and allocation counters connect everything
	if strings.HasPrefix(sym, "r_") || strings.HasPrefix(sym, "e_") || strings.Contains(sym, "r_") && strings.HasPrefix(sym, "in") {
		return true
	}
	if strings.HasPrefix(sym, "H") || strings.HasPrefix(sym, "A!") || strings.HasPrefix(sym, "Ah!") || strings.HasPrefix(sym, "Ax!") || sym == "A0" {
		return true
	}
	return false
}

func sliceQuery(q string) (string, bool) {
	lines := strings.Split(q, "\n")
	// locate the obligation part: the last two asserts before (check-sat)
	cs := -1
	for i := len(lines) - 1; i >= 0; i-- {
		if strings.HasPrefix(lines[i], "(check-sat)") {
			cs = i
			break
		}
	}
	if cs < 2 {
		return "", false
	}
	// header: everything up to "; END-SPEC" is kept or filtered separately
	endSpec := -1
	beginSpec := -1
	for i, l := range lines {
		if l == "; BEGIN-SPEC" {
			beginSpec = i
		}
		if l == "; END-SPEC" {
			endSpec = i
			break
		}
	}
	if endSpec < 0 {
		return "", false
	}
	type ln struct {
		text string
		def  string // symbol defined/declared
		toks []string
		kind int // 0 other, 1 define/declare, 2 assert
	}
	var body []ln
	for i := endSpec + 1; i < cs; i++ {
		l := lines[i]
		x := ln{text: l, toks: tokensOf(l)}
		switch {
		case strings.HasPrefix(l, "(define-fun ") || strings.HasPrefix(l, "(declare-const ") || strings.HasPrefix(l, "(declare-fun "):
			x.kind = 1
			if len(x.toks) > 1 {
				x.def = x.toks[1]
			}
		case strings.HasPrefix(l, "(assert "):
			x.kind = 2
		}
		body = append(body, x)
	}
	// goal = trailing asserts (after the comment line "; obligation")
	goalStart := len(body)
	for i := len(body) - 1; i >= 0; i-- {
		if strings.HasPrefix(body[i].text, "; obligation") || strings.HasPrefix(body[i].text, "; lemma") {
			goalStart = i
			break
		}
	}
	if goalStart == len(body) {
		return "", false
	}
	rel := map[string]bool{}
	for _, x := range body[goalStart:] {
		for _, t := range x.toks {
			rel[t] = true
		}
	}
	defOf := map[string]int{}
	for i, x := range body[:goalStart] {
		if x.kind == 1 {
			defOf[x.def] = i
		}
	}
	keep := make([]bool, goalStart)
	changed := true
	for changed {
		changed = false
		// definitions of relevant symbols
		for sym := range rel {
			if i, ok := defOf[sym]; ok && !keep[i] {
				keep[i] = true
				changed = true
				for _, t := range body[i].toks {
					if !rel[t] {
						rel[t] = true
					}
				}
			}
		}
		// assertions sharing a non-structural symbol
		for i, x := range body[:goalStart] {
			if x.kind != 2 || keep[i] {
				continue
			}
			share := false
			allRel := true
			for _, t := range x.toks {
				_, isDef := defOf[t]
				if !isDef {
					continue
				}
				if rel[t] && !isStructural(t) {
					share = true
					break
				}
				if !rel[t] {
					allRel = false
				}
			}
			if allRel {
				share = true // speaks only about symbols that are already relevant
			}
			if share {
				keep[i] = true
				changed = true
				for _, t := range x.toks {
					rel[t] = true
				}
			}
		}
	}
	usesSpec := false
	for sym := range rel {
		if strings.HasPrefix(sym, "sf_") || sym == "zeros" || sym == "ints" {
			usesSpec = true
			break
		}
	}
	var sb strings.Builder
	for i := 0; i <= endSpec; i++ {
		l := lines[i]
		if !usesSpec && i > beginSpec && i < endSpec && strings.Contains(l, "(forall ") {
			continue
		}
		sb.WriteString(l + "\n")
	}
	for i, x := range body[:goalStart] {
		if keep[i] || x.kind == 0 {
			sb.WriteString(x.text + "\n")
		}
	}
	for _, x := range body[goalStart:] {
		sb.WriteString(x.text + "\n")
	}
	sb.WriteString("(check-sat)\n")
	return sb.String(), true
}
