#!/bin/bash
# Must-fail self-test of the machinery: every seeded change that a property's check is recorded
# to catch (seeded/<id>/meta.json, "caught": true, and a VIOLATION line of that property in
# check_results.txt) is applied to a scratch copy of /repo's working tree (outside /repo and
# /verif, removed afterwards) and the check must report a violation there. A seed whose patch
# no longer applies is skipped (the tree has changed), not failed.
# usage: selftest/run.sh [Cxx]        exit 0 = every applicable seed was caught
cd "$(dirname "$0")/.."
export GOFLAGS=-mod=mod GOPROXY=off GOSUMDB=off GOTOOLCHAIN=local
ONLY="$1"
REPO="${VERIF_REPO:-/repo}"
fail=0; ran=0; skipped=0
for d in seeded/*/; do
  id=$(basename "$d")
  [ -f "$d/check_results.txt" ] || continue
  props=$(grep VIOLATION "$d/check_results.txt" | sed 's/^\[\(C[0-9]*\)\].*/\1/' | sort -u)
  for P in $props; do
    [ -n "$ONLY" ] && [ "$P" != "$ONLY" ] && continue
    S=$(mktemp -d /var/tmp/govc-selftest.XXXXXX)
    # working tree incl. uncommitted changes, without .git
    rsync -a --exclude .git "$REPO"/ "$S"/
    if ! (cd "$S" && patch -p1 -s --no-backup-if-mismatch < "$OLDPWD/$d/patch.diff" >/dev/null 2>&1); then
      echo "selftest: $id skipped (patch does not apply to the current tree)"
      skipped=$((skipped+1)); rm -rf "$S"; continue
    fi
    out=$(bin/govc check -prop "$P" -repo "$S" -no-evidence -no-replay 2>&1)
    if [ "$P" = "C16" ] && ! echo "$out" | grep -q "^VIOLATION property=$P"; then
      # the seeds that only the generated-code corpus sees
      out=$(VERIF_REPO="$S" CORPUS_NO_EVIDENCE=1 tools/corpus_check.sh "$P" 2>&1)
    fi
    rm -rf "$S"
    ran=$((ran+1))
    if echo "$out" | grep -q "^VIOLATION property=$P"; then
      echo "selftest: $id caught by $P"
    else
      echo "SELFTEST-FAIL: seeded change $id is no longer reported by the $P check"
      fail=1
    fi
  done
done
echo "selftest: $ran run, $skipped skipped, failures=$fail"
exit $fail
