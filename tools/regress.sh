#!/bin/bash
# runs the quick obligations of every claimed property (no evidence, no replay) and prints one line each
cd "$(dirname "$0")/.."
rc=0
for p in $(python3 -c "import json;print(' '.join(c['property_id'] for c in json.load(open('MANIFEST.json'))['checks']))"); do
  out=$(./bin/govc check -prop $p -no-evidence -no-replay 2>&1 | grep -E "FAIL|BROKEN|^govc" | cut -c1-200)
  echo "$out" | tail -1
  echo "$out" | grep -E "FAIL|BROKEN" | head -5
  echo "$out" | grep -qE "FAIL|BROKEN" && rc=1
done
exit $rc
