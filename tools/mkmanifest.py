#!/usr/bin/env python3
# Regenerates /verif/MANIFEST.json from the table below (single source of truth for claims).
import json, subprocess
CLAIMS = {
 "C02": dict(text="Proof: every Write*/Read* primitive of the codec is verified function by function against the wire-format spec functions (specs/wire.gvs): writers produce exactly encX(tag,value) for all tags and values; readers on arbitrary input compute the strict reference decoder (value bit-exact, cursor at field end, narrower encodings accepted by wider readers).",
             note="Trusted: library contracts for bytes.Buffer/bytes.Reader/binary.BigEndian/math.Float*bits (specs/lib.gvs), big-endian payloads as abstract inverse pairs, float32->float64 widening uninterpreted, go/ssa, SMT solvers. The spec-level round-trip lemma (dec(enc(v)) == v) is not yet mechanised; both directions are proved against the same wire spec.",
             ref="DESIGN 7/C02"),
 "C04": dict(text="Proof: skipField/skipFieldList/skipFieldMap/skipFieldSimpleList/SkipToStructEnd consume exactly the extent of every well-formed field of every wire type and unbounded nesting (mutual recursion verified modularly against payloadEnd/fieldsEnd/structEnd); SkipToNoCheck/SkipTo implement the seek specification (found / absent with cursor restored / end of input / required-but-absent is an error); readers leave the target unchanged when the tag is absent.",
             note="Scope: codec level only; ResetDefault/ReadFrom of generated structs and the relational insert-unknown-fields lemma are not yet covered. A map count above 2^30-1 is treated as malformed by the spec. Same trusted base as C02.",
             ref="DESIGN 7/C04"),
 "C05": dict(text="Proof of run-time safety (no nil dereference, index/slice bounds, make length, division), termination (loop variants and a lexicographic measure over the mutual recursion of the skip functions) and allocation bounded by the remaining input for every function of tars/protocol/codec that a decoder reaches.",
             note="Scope so far: package codec. Not yet covered: recursion depth (stack exhaustion on deeply nested StructBegin), generated ReadFrom code, tup, Invoke entry slicing, UDP path. Allocation failure and stack growth are not modelled.",
             ref="DESIGN 7/C05"),
 "C06": dict(text="Proof: on arbitrary input every codec reader either fails or returns exactly the value of the strict reference decoder; a fixed-width payload, string or byte vector that is cut short is an error (never zero-padded, partial or zero-filled), and a wire type not admissible for the reader is an error.",
             note="Scope: package codec (tup.Decode and generated readers inherit strictness through these contracts but are not themselves under contract yet). Truncation inside an earlier, skipped field is classed as malformed and left unconstrained. Same trusted base as C02.",
             ref="DESIGN 7/C06"),
 "C07": dict(text="Proof: TarsRequest implements the framing rule exactly (length below 4 or above the configured maximum is an error, exactly the maximum is accepted, incomplete input waits); both receive loops (server tcpHandler.recv, client connection.recv) maintain delivered ++ pending == bytes-read-so-far for every sequence of Read results, hand over only complete single frames, never keep a complete frame waiting for the next read, and close the connection when they return.",
             note="Trusted: net.Conn.Read contract (bytes are appended to the ghost stream only when err == nil), ServerProtocol/ClientProtocol.ParsePackage interface contracts (= the framing rule; the Tars implementation TarsRequest is proved against the same rule), handleConn / go Recv as the delivery event, logging/time/atomic calls effect-free. Goroutine scheduling is not modelled; the loops are verified as sequential code for all chunkings.",
             ref="DESIGN 7/C07"),
 "C18": dict(text="Proof: Parse never panics for any string; every field of the result is the corresponding option value (or its documented default) extracted by the flag package from the fields after the first, with int32 conversion, the weight normalisation and the tcp/udp/ssl transport mapping; Key is the canonical string of (Proto, Host, Port, Timeout); Tars2endpoint/Endpoint2tars copy host, port, timeout, transport kind, grid, qos, weight, weight type, auth type and set id; a spec lemma shows the cache keys of a direct address and of its registry round trip agree for tcp/udp/ssl.",
             note="Trusted: contracts of strings.Fields and flag.FlagSet (ghost registry of registered variables; option extraction itself is the uninterpreted flagInt/flagStr), Endpoint.String defines the canonical string (fmt.Sprintf uninterpreted). The call site in newEndpointManager is not under contract.",
             ref="DESIGN 7/C18"),
 "C01": dict(text="Proof of the server-side sequential core of a call: Protocol.Invoke maps the dispatcher's error to the response (IRet = the *tars.Error code or 1, SResultDesc = the error message) regardless of registered pass-through post filters, enters the implementation at most once, and echoes request id / version / packet type.",
             note="Scope: server Invoke only. NOT covered (listed in evidence): the client side (TarsInvoke/doInvoke inverse error map), generated proxies and dispatchers for arbitrary IDL (programs quantifier; a generator change that only affects IDL with nested containers is not detected), TCP transport, concurrent callers (per-request context isolation), one-way delivery over the wire. Trusted: dispatch.Dispatch interface contract, pass-through filter contract (returns nil, changes nothing), rsp2Byte, CheckPanic, util/current accessors.",
             ref="DESIGN 7/C01"),
 "C10": dict(text="Proof for Protocol.Invoke: the response carries the request's id, protocol version and packet type; a tars_ping request and a request whose own timeout already elapsed in the queue never reach the implementation (the latter is answered on the ctx.Done branch); an implementation error becomes IRet = code / 1 with the error's message; the implementation is entered at most once.",
             note="Scope: Invoke. NOT covered: exactly-one-response per request over the transport (handler goroutines, worker pool, UDP), TarsServer.invoke handle-timeout race, rsp2Byte/req2Byte encoding (trusted), TUP/JSON versions. Trusted: context.WithTimeout/Done contracts (a non-positive timeout yields a done context; a non-blocking select takes a ready case), time stamps within sane ranges, dispatch/filter contracts as in C01.",
             ref="DESIGN 7/C10"),
 "C13": dict(text="Proof for all four selectors: Select never indexes out of range and fails exactly when the member list (ring) is empty; round-robin returns endpoints[(cursor+1) mod N] and advances the cursor by one (strict rotation); Refresh/Add/Remove re-establish the representation invariant (weighted-cycle entries are valid indexes, owned arrays are freshly allocated and never the caller's); BuildStaticWeightList terminates and cannot panic for any weights (zero, negative, huge); the consistent-hash virtual-node count is max(1, w/4) for every positive weight.",
             note="UNPROVED clauses (assumed by callers, listed in evidence): BuildStaticWeightList's entries are indexes into its argument and its length is at most 101*N+1 (the quantified invariants of the smooth weighted round-robin loops are not discharged by the solvers). NOT covered: the weighted count formula, that the member list equals the supplied set (subset/distinct-host part), concurrent Select vs update (locks assumed to give atomicity), ring sortedness. Trusted: sort.Slice permutes, sort.Search result in [0,n], rand.Intn in [0,n), atomic.AddUint64.",
             ref="DESIGN 7/C13"),
 "C14": dict(text="Proof: mod-hash Select returns endpoints[h mod N], or endpoints[cycle[h mod len(cycle)]] when static weights are installed, with h the message's hash code, and changes no state (so the same code maps to the same endpoint while the set is unchanged); the consistent-hash number of ring rounds per endpoint is exactly max(1, w/4) for positive effective weight w and w otherwise.",
             note="NOT covered: consistent-hash lookup = first ring point >= key (sort.Search with a closure predicate is only specified to return an index in range), history independence and minimal disruption of the ring (needs collision-freedom of md5 points; see DESIGN F16), routing of a call with a hash code in its context through the endpoint manager.",
             ref="DESIGN 7/C14"),
 "C15": dict(text="Proof of the per-step relations of an endpoint's health record: checkActive never blocks an endpoint with fewer than two failures (it requires failCount >= overN given lastFailCount <= failCount), blocks after fainN consecutive failures lasting failInterval seconds, never reinstates by itself, hands out a probe only when blocked and at least tryTimeInterval seconds after the last one (and records the probe time); failAdd/successAdd/reset are exact (reset zeroes all counters and reinstates).",
             note="Scope: AdapterProxy step functions. NOT covered: checkStatus/SelectAdapterProxy/addAliveEp (removal from rotation, probe queue, random fallback when every endpoint is blocked), the composition of steps over a timed history, goroutine timing. The ratio rule uses an uninterpreted float comparison. Package-level thresholds (fainN=5, failInterval=5, tryTimeInterval=30, overN=2) are treated as constants because nothing in the module reassigns them. Atomics are modelled sequentially.",
             ref="DESIGN 7/C15"),
}
NA = {
 "C11": "schedule property: needs an interleaving of sender/receiver goroutines over a shared connection; per-function contracts cannot quantify over schedules and govc has no concurrency logic",
 "C12": "schedule property: ordering of handler completion, pool release and socket close across goroutines",
 "C19": "schedule property: exactly-once/bounded parallelism of a three-party channel protocol under all schedules",
 "C20": "schedule property: the loss needs a specific interleaving of logger, flusher and flush request",
}
NOT_REACHED = "not reached yet: contracts for the functions this property depends on are still being written (DESIGN section 10 priority tiers); not claimed on weaker grounds"
def main():
    repo_commits = subprocess.run(["git","-C","/repo","log","--format=%h %s"],capture_output=True,text=True).stdout.strip().split("\n")
    hooks = [c.split()[0] for c in repo_commits if c.split(" ",1)[1].startswith("verif:")]
    checks=[]
    for pid in sorted(CLAIMS):
        c=CLAIMS[pid]
        checks.append({"property_id":pid,"quick_cmd":"./check %s quick"%pid,"thorough_cmd":"./check %s thorough"%pid,
            "evidence_file":"/verif/evidence/%s.json"%pid,"replay_cmd_template":"./check %s --replay {path}"%pid,"engine":"govc",
            "level_claimed":{"category":"proof","text":c["text"],"design_ref":c["ref"]},"level_note":c["note"],
            "technique":"contract-based deductive verification: weakest-precondition VCs generated from go/ssa of the real code, contracts in comment-only *_verif.go files, discharged by z3/cvc5"})
    na=[]
    for i in range(1,21):
        pid="C%02d"%i
        if pid in CLAIMS: continue
        na.append({"property_id":pid,"reason":NA.get(pid,NOT_REACHED)})
    m={"version":1,"setup_cmd":"./setup.sh",
       "hooks":{"guard":"verif","enable":"go build -tags verif (contract files are comment-only; govc loads packages with -tags=verif)","baseline_off_cmd":"cd /repo/tars && go test -vet=off -count=1 ./... && cd /repo/contrib/log && go test -vet=off -count=1 ./...","source_commits":hooks,"add_only":True},
       "engines":[{"name":"govc","path":"govc","serves_properties":sorted(CLAIMS),"kind_free_text":"contract-based deductive verifier for Go written for this task: go/packages+go/ssa -> passive-form weakest-precondition VCs -> SMT-LIB -> portfolio of z3 4.8.12, z3 5.1.0, cvc5 1.0; counterexamples replayed on the real code with go test -overlay"}],
       "checks":checks,"not_applicable":na,
       "notes":"Contracts live in /repo/**/contracts_verif.go (build tag verif, comments only). Spec functions and trusted library contracts: /verif/specs. Known findings: /verif/known_findings.json. See DESIGN.md."}
    json.dump(m,open("/verif/MANIFEST.json","w"),indent=1)
main()
