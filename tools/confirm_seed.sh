#!/bin/bash
# usage: tools/confirm_seed.sh <seed dir> <seed id> <props...>
# 1. confirms in a scratch worktree that the change compiles, keeps the existing tests green,
#    and that the demonstration fails with the change and passes without it;
# 2. runs the quick checks of the given properties with the change applied to /repo (reverted afterwards);
# 3. stores everything under /verif/seeded/<seed id>/.
set -u
SEED="$1"; ID="$2"; shift 2
export GOFLAGS=-mod=mod GOPROXY=off GOSUMDB=off GOTOOLCHAIN=local
WT=$(mktemp -d /tmp/confirm.XXXXXX)
git -C /repo worktree add -f "$WT/repo" HEAD -q || exit 2
R="$WT/repo"
OUT=/verif/seeded/$ID
mkdir -p "$OUT"
cp "$SEED/patch.diff" "$OUT/patch.diff"
cp "$SEED/meta.json" "$OUT/agent_meta.json" 2>/dev/null
DEMO=""
if [ -f "$SEED/demo_test.go" ]; then DEMO="$SEED/demo_test.go"; cp "$DEMO" "$OUT/demo_test.go"; fi
if [ -d "$SEED/demo" ]; then cp -r "$SEED/demo" "$OUT/demo"; fi
run_demo() {
  if [ -n "$DEMO" ]; then
    d=$(head -1 "$DEMO" | sed 's#^// *dir: *##')
    cp "$DEMO" "$R/$d/zz_seed_demo_test.go"
    names=$(grep -o '^func Test[A-Za-z0-9_]*' "$DEMO" | sed 's/^func //' | paste -sd'|')
    (cd "$R/$d" && timeout 300 go test -vet=off -count=1 -run "^($names)\$" . >"$WT/demo.log" 2>&1); rc=$?
    rm -f "$R/$d/zz_seed_demo_test.go"
    return $rc
  elif [ -d "$SEED/demo" ]; then
    # a stand-alone program that takes the repository root as its argument
    D=$(mktemp -d /tmp/seeddemo.XXXXXX); cp -r "$SEED/demo/." "$D/"
    (cd "$D" && timeout 600 go run main.go "$R" >"$WT/demo.log" 2>&1); rc=$?
    rm -rf "$D"
    return $rc
  fi
  return 99
}
run_demo; clean_rc=$?
(cd "$R" && git apply "$OUT/patch.diff") || { echo "patch does not apply"; git -C /repo worktree remove --force "$R"; exit 2; }
(cd "$R/tars" && go build ./... >"$WT/build.log" 2>&1); build_rc=$?
(cd "$R/tars" && go test -vet=off -count=1 ./protocol/... ./selector/... ./util/... . 2>&1 | grep -v "no test files" >"$WT/tests.log"); 
tests_fail=$(grep -c "^--- FAIL\|^FAIL" "$WT/tests.log")
other_fail=$(grep "^--- FAIL" "$WT/tests.log" | grep -v "TestKetamaHashAlg_Hash" | wc -l)
run_demo; seeded_rc=$?
tail -5 "$WT/demo.log" > "$OUT/demo_with_change.log"
git -C /repo worktree remove --force "$R"; rm -rf "$WT"
# checks against a scratch copy of /repo's working tree with the change applied (removed afterwards; /repo itself
# is not touched, so this can run while other checks read /repo)
RES="$OUT/check_results.txt"; : > "$RES"
SC=$(mktemp -d /var/tmp/confirm-seed.XXXXXX)
rsync -a --exclude .git /repo/ "$SC"/
if (cd "$SC" && patch -p1 -s --no-backup-if-mismatch < "$OUT/patch.diff" >/dev/null 2>&1); then
  for P in "$@"; do
    (cd /verif && ./bin/govc check -prop "$P" -repo "$SC" -no-evidence 2>&1 | grep -E "FAIL|VIOLATION|BROKEN|^govc" | cut -c1-240 | sed "s#$SC#/repo#g" | sed "s/^/[$P] /") >> "$RES"
    if [ "$P" = "C16" ]; then
      (cd /verif && VERIF_REPO="$SC" CORPUS_NO_EVIDENCE=1 tools/corpus_check.sh "$P" 2>&1 | grep -E "FAIL|VIOLATION|BROKEN|^corpus:" | cut -c1-240 | sed "s/^/[$P] /") >> "$RES"
    fi
  done
else
  echo "skipped: patch does not apply to the working tree" >> "$RES"
fi
rm -rf "$SC"
caught=$(grep -c "VIOLATION" "$RES")
python3 - "$OUT" "$ID" "$clean_rc" "$build_rc" "$other_fail" "$seeded_rc" "$caught" "$*" <<'PY'
import json,sys,os
out,id_,clean,build,other,seeded,caught,props=sys.argv[1:9]
am={}
try: am=json.load(open(out+'/agent_meta.json'))
except Exception: pass
meta={"id":id_,"property":am.get("property"),"title":am.get("title"),"what_changed":am.get("what_changed"),"needs_to_manifest":am.get("needs_to_manifest"),
 "confirmed_by_me":{"builds":build=="0","existing_tests_non_baseline_failures":int(other),"demo_passes_without_change":clean=="0","demo_fails_with_change":seeded not in("0","99"),
   "ran":"scratch worktree of /repo HEAD: go build ./...; go test ./protocol/... ./selector/... ./util/... . ; demo before and after git apply"},
 "checks_run":props.split(),"violations_reported":int(caught),"caught":int(caught)>0}
json.dump(meta,open(out+'/meta.json','w'),indent=1)
print(json.dumps(meta["confirmed_by_me"]), "caught=",meta["caught"])
PY
cat "$RES" | grep -E "FAIL|govc" | head -8
