#!/usr/bin/env python3
"""Derives the C05 (decoder totality) contracts of the generated protocol bindings mechanically from
their source: for every struct T of tars/protocol/res/<pkg>/<Pkg>F.go the methods ResetDefault, ReadFrom and
ReadBlock get the same contract shape as requestf's hand-written ones (safety, termination, allocation bounded
by the input, cursor monotone, reader valid); loop invariants follow from the loop's shape (vector / map).
The output is a comment-only contracts_verif.go (build tag verif) per package. Re-run after regenerating
the bindings:  tools/gencontracts.py [--check]   (--check: fail if the files in /repo differ)."""
import re, sys, os
REPO = os.environ.get("VERIF_REPO", "/repo")
PKGS = ["authf", "configf", "endpointf", "logf", "nodef", "notifyf", "propertyf", "statf"]

def methods(src):
    # (type, method, body)
    out = []
    for m in re.finditer(r'^func \(st \*(\w+)\) (\w+)\(([^)]*)\)[^{]*\{\n(.*?)^\}\n', src, re.S | re.M):
        out.append((m.group(1), m.group(2), m.group(4)))
    return out

def loops(body):
    """loop shapes in source order: ('vec', field) | ('map', field) | ('other', None)"""
    res = []
    lines = body.split('\n')
    for i, l in enumerate(lines):
        if re.search(r'^\s*for\b', l):
            shape = ('other', None)
            # look back for the make that prepares the container
            for j in range(i - 1, max(i - 6, -1), -1):
                mm = re.search(r'(st\.\w+) = make\((\[\]|map)', lines[j])
                if mm:
                    shape = ('vec' if mm.group(2) == '[]' else 'map', mm.group(1))
                    break
            res.append(shape)
    return res

def gen(pkg):
    fn = "%s/tars/protocol/res/%s/%sF.go" % (REPO, pkg, pkg[:-1].capitalize())
    src = open(fn).read()
    o = ["//go:build verif", "",
         "// Contracts for the generated bindings of this package (property C05), derived mechanically by",
         "// /verif/tools/gencontracts.py from the generated source; checked by /verif/govc. Comments only.", "",
         "package " + pkg, ""]
    for ty, name, body in methods(src):
        if name == "ResetDefault":
            o += ["//@ func (*%s).ResetDefault" % ty, "//@   requires st != nil", "//@   modifies *st", "//@   safety [C05]", "//"]
        elif name == "ReadFrom":
            o += ["//@ func (*%s).ReadFrom" % ty,
                  "//@   requires st != nil && validR(readBuf)",
                  "//@   let p0 = readBuf.buf.i",
                  "//@   let allocbudget = 256 * len(readBuf.buf.src)",
                  "//@   modifies *st, readBuf.buf.i, readBuf.depth",
                  "//@   allocates",
                  "//@   ensures [C05] readBuf.buf.i >= p0",
                  "//@   ensures [C05] validR(readBuf)"]
            for k, (shape, fld) in enumerate(loops(body)):
                inv = "validR(readBuf) && readBuf.buf.i >= p0 && st != nil"
                if shape == 'vec':
                    inv += " && len(%s) == length" % fld
                    o.append("//@   loop %d modifies elems(%s), readBuf.buf.i, readBuf.depth" % (k, fld))
                elif shape == 'map':
                    inv += " && %s != nil" % fld
                o.append("//@   loop %d invariant [C05] %s" % (k, inv))
            o += ["//@   safety [C05]", "//"]
        elif name == "ReadBlock":
            o += ["//@ func (*%s).ReadBlock" % ty,
                  "//@   requires st != nil && validR(readBuf)",
                  "//@   let p0 = readBuf.buf.i",
                  "//@   let allocbudget = 256 * len(readBuf.buf.src)",
                  "//@   modifies *st, readBuf.buf.i, readBuf.depth",
                  "//@   allocates",
                  "//@   ensures [C05] readBuf.buf.i >= p0",
                  "//@   ensures [C05] validR(readBuf)",
                  "//@   safety [C05]", "//"]
    return "\n".join(o).rstrip("/\n") + "\n"

def main():
    check = "--check" in sys.argv
    bad = 0
    for pkg in PKGS:
        text = gen(pkg)
        path = "%s/tars/protocol/res/%s/contracts_verif.go" % (REPO, pkg)
        if check:
            if not os.path.exists(path) or open(path).read() != text:
                print("contracts of", pkg, "are not up to date"); bad = 1
        else:
            open(path, "w").write(text)
    sys.exit(bad)
main()
