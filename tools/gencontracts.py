#!/usr/bin/env python3
"""Derives the C05 (decoder totality) contracts of the generated protocol bindings mechanically from
their source: for every struct T of tars/protocol/res/<pkg>/<Pkg>F.go the methods ResetDefault, ReadFrom and
ReadBlock get the same contract shape as requestf's hand-written ones (safety, termination, allocation bounded
by the input, cursor monotone, reader valid); loop invariants follow from the loop's shape (vector / map).
The output is a comment-only contracts_verif.go (build tag verif) per package. Re-run after regenerating
the bindings:  tools/gencontracts.py [--check]   (--check: fail if the files in /repo differ)."""
import re, sys, os
REPO = os.environ.get("VERIF_REPO", "/repo")
PKGS = ["authf", "configf", "endpointf", "logf", "nodef", "notifyf", "propertyf", "statf"]

def methods(src):
    # (type, method, body)
    out = []
    for m in re.finditer(r'^func \(st \*(\w+)\) (\w+)\(([^)]*)\)[^{]*\{\n(.*?)^\}\n', src, re.S | re.M):
        out.append((m.group(1), m.group(2), m.group(4)))
    return out

def loops(body):
    """loops in source order with their nesting: list of dicts
       {kind: 'vec'|'map'|'other', target: expr|None, idx: 'i0', bound: 'e0', depth: n, parents: [ordinals]}"""
    res = []
    lines = body.split('\n')
    stack = []  # (ordinal, indent)
    for i, l in enumerate(lines):
        ind = len(l) - len(l.lstrip('\t'))
        while stack and ind <= stack[-1][1] and l.strip():
            # a line at or left of the loop's own indentation ends it (the closing brace is at that indentation)
            if l.strip() == '}' and ind == stack[-1][1]:
                stack.pop()
                break
            if ind < stack[-1][1]:
                stack.pop()
            else:
                break
        # the loop head names its own bound (a per-loop copy `eN` of the header length, or `length` itself)
        m = re.match(r'^\s*for (\w+), (\w+) := int32\(0\), length; ', l)
        m2 = re.match(r'^\s*for (\w+) := int32\(0\); \1 < (\w+); ', l)
        if re.search(r'^\s*for\b', l):
            info = {"kind": "other", "target": None, "idx": None, "bound": None, "parents": [o for o, _ in stack]}
            if m or m2:
                info["idx"], info["bound"] = (m or m2).group(1), (m or m2).group(2)
                for j in range(i - 1, max(i - 8, -1), -1):
                    mm = re.search(r'^\s*(\S+) = make\((\[\]|map)', lines[j])
                    if mm:
                        info["kind"] = 'vec' if mm.group(2) == '[]' else 'map'
                        info["target"] = mm.group(1)
                        break
                    ma = re.search(r'^\s*if length < 0 \|\| int64\(length\) > (\d+) \{', lines[j])
                    if ma:
                        # a fixed array: no allocation, the announced length is checked against the array size
                        info["kind"] = 'arr'
                        info["n"] = int(ma.group(1))
                        for jj in range(i + 1, min(i + 6, len(lines))):
                            mt = re.search(r'(st\.\w+)\[%s\]' % info["idx"], lines[jj])
                            if mt:
                                info["target"] = mt.group(1)
                                break
                        break
            res.append(info)
            stack.append((len(res) - 1, ind))
    return res

def loop_clauses(body):
    """invariants / modifies of the reader loops, from their shape and nesting"""
    ls = loops(body)
    out = []
    def own(info):
        c = []
        if info["kind"] == "arr":
            c.append("%s <= %d" % (info["bound"], info["n"]))
        if info["kind"] == "vec":
            c.append("len(%s) == %s" % (info["target"], info["bound"]))
        elif info["kind"] == "map":
            c.append("%s != nil" % info["target"])
        return c
    for k, info in enumerate(ls):
        inv = ["validR(readBuf)", "readBuf.buf.i >= p0", "st != nil"]
        for pk in info["parents"]:
            pi = ls[pk]
            inv += own(pi)
            if pi["idx"]:
                inv.append("0 <= %s && %s < %s" % (pi["idx"], pi["idx"], pi["bound"]))
        inv += own(info)
        if info["idx"]:
            inv.append("0 <= %s" % info["idx"])
        # a vector loop writes the elements of its target and the cursor, besides what the verifier finds by itself
        # (the shared `length` cell, objects allocated by the iteration)
        if info["kind"] == "vec":
            out.append("//@   loop %d modifies elems(%s), readBuf.buf.i, readBuf.depth, readBuf.rderr" % (k, info["target"]))
        elif info["kind"] == "arr":
            out.append("//@   loop %d modifies %s, readBuf.buf.i, readBuf.depth, readBuf.rderr" % (k, info["target"] or "*st"))
        elif info["kind"] == "map" and info["parents"]:
            out.append("//@   loop %d modifies mapcells(%s), readBuf.buf.i, readBuf.depth, readBuf.rderr" % (k, info["target"]))
        out.append("//@   loop %d invariant [C05] %s" % (k, " && ".join(inv)))
        out.append("//@   loop %d invariant [C06] !readBuf.rderr" % k)
    return [o for o in out if o]

# ------------------------------------------------------------------ schema (C03): the IDL files are the oracle
IDL = {"authf": "AuthF.tars", "configf": "ConfigF.tars", "endpointf": "EndpointF.tars", "logf": "LogF.tars",
       "nodef": "NodeF.tars", "notifyf": "NotifyF.tars", "propertyf": "PropertyF.tars", "statf": "StatF.tars"}
SCALAR = {"enum": "encInt32", "bool": "encBool", "byte": "encInt8", "short": "encInt16", "int": "encInt32", "long": "encInt64",
          "unsigned byte": "encInt16", "unsigned short": "encInt32", "unsigned int": "encInt64",
          "string": "encString"}

# reader spec per IDL type: (kind function, extra width argument, value expression over V)
READER = {"enum": ("decIntK", ", 4", "decIntV", "decIntP", "{V}"), "int": ("decIntK", ", 4", "decIntV", "decIntP", "{V}"),
          "byte": ("decIntK", ", 1", "decIntV", "decIntP", "{V}"), "short": ("decIntK", ", 2", "decIntV", "decIntP", "{V}"),
          "long": ("decIntK", ", 8", "decIntV", "decIntP", "{V}"), "bool": ("decIntK", ", 1", "decIntV", "decIntP", "({V} != 0)"),
          "unsigned byte": ("decIntK", ", 2", "decIntV", "decIntP", "u8({V})"), "unsigned short": ("decIntK", ", 4", "decIntV", "decIntP", "u16({V})"),
          "unsigned int": ("decIntK", ", 8", "decIntV", "decIntP", "u32({V})"), "string": ("decStrK", "", "decStrV", "decStrP", "{V}")}

def scalar_struct(mem):
    return all(m[2] in SCALAR for m in mem) and len(mem) > 0

def scalar_prefix(mem):
    """the members (ascending tags) before the first member of container or struct type"""
    out = []
    for m in sorted(mem):
        if m[2] not in SCALAR:
            break
        out.append(m)
    return out

def default_of(ity, dflt):
    if dflt is None:
        return None
    return dflt

def reader_schema(pkg, ty, mem, fields, whole=True):
    """lets and ensures of ReadFrom for a scalar struct: the schema-directed reference decoder.
    q<k> is the cursor after member k; k<k> its outcome (0 present, 1 absent); ok<k>: all members so far are
    present or cleanly absent. A member that is present gets the decoded value, an absent optional member keeps
    what ResetDefault left (its declared default, or its previous content when none is declared)."""
    lets, ens = ["//@   let q0 = readBuf.buf.i"], []
    prev_ok = None
    for n, (tag, req, ity, name, dflt) in enumerate(sorted(mem), 1):
        K, W, V, P, vexp = READER[ity]
        f = "st." + fields[name][0]
        reqs = "true" if req else "false"
        args = "src, q%d, %d" % (n - 1, tag)
        lets.append("//@   let k%d = %s(%s, %s%s, d0)" % (n, K, args, reqs, W))
        lets.append("//@   let q%d = (k%d == 0 ? %s(%s, d0) : seekP(%s, d0))" % (n, n, P, args, args))
        okk = "(k%d == 0 || (k%d == 1 && (seekK(%s, d0) == 2 || (seekK(%s, d0) == 1 && seekCanon(%s, d0)))))" % (n, n, args, args, args)
        lets.append("//@   let ok%d = %s%s" % (n, ("ok%d && " % (n - 1)) if prev_ok else "", okk))
        prev_ok = n
        val = vexp.replace("{V}", "%s(%s, d0)" % (V, args))
        d = default_of(ity, dflt)
        absent = d if d is not None else "old(%s)" % f
        ens.append("//@   ensures [C04] (ok%d && err == nil) ==> %s == (k%d == 0 ? %s : %s)" % (n, f, n, val, absent))
        ens.append("//@   ensures [C06] (%sk%d == 2) ==> err != nil" % (("ok%d && " % (n - 1)) if n > 1 else "", n))
    if whole:
        ens.append("//@   ensures [C04] ok%d ==> (err == nil && readBuf.buf.i == q%d)" % (prev_ok, prev_ok))
    return lets, ens

def idl_structs(pkg):
    """{struct: [(tag, required, type, name, default)]} parsed from the .tars file (comments stripped)"""
    text = open(IDLFILE.get(pkg, "%s/tars/protocol/res/%s" % (REPO, IDL.get(pkg, "")))).read()
    text = re.sub(r'/\*.*?\*/', '', text, flags=re.S)
    text = re.sub(r'//[^\n]*', '', text)
    enums = set(re.findall(r'\benum\s+(\w+)', text))
    out = {}
    for m in re.finditer(r'\bstruct\s+(\w+)\s*\{(.*?)\}\s*;', text, re.S):
        mem = []
        for mm in re.finditer(r'(\d+)\s+(require|optional)\s+([^;=]+?)\s+(\w+)\s*(\[\s*\d+\s*\])?\s*(?:=\s*([^;]+?))?\s*;', m.group(2)):
            ty = re.sub(r'\s+', ' ', mm.group(3).strip())
            dflt = mm.group(6).strip() if mm.group(6) else None
            if ty in enums:
                if dflt is not None and re.match(r'^[A-Za-z_]\w*$', dflt):
                    dflt = "%s_%s" % (upper1(ty), dflt)  # an enumerator: the generated constant of that name
                ty = "enum"
            if mm.group(5):
                ty = "array<%s>" % ty  # fixed array T name[N]: on the wire a LIST like vector<T>
            mem.append((int(mm.group(1)), mm.group(2) == "require", ty, mm.group(4), dflt))
        out[m.group(1)] = mem
    return out

def idl_interfaces(pkg):
    """[(interface, [(op, returns_value, [(is_out, type, name)])])] parsed from the .tars file"""
    text = open(IDLFILE.get(pkg, "%s/tars/protocol/res/%s" % (REPO, IDL.get(pkg, "")))).read()
    text = re.sub(r'/\*.*?\*/', '', text, flags=re.S)
    text = re.sub(r'//[^\n]*', '', text)
    out = []
    for m in re.finditer(r'\binterface\s+(\w+)\s*\{(.*?)\}\s*;', text, re.S):
        ops = []
        for mm in re.finditer(r'([\w<>:, ]+?)\s+(\w+)\s*\(([^)]*)\)\s*;', m.group(2)):
            args = []
            parts, cur, depth = [], "", 0
            for ch in mm.group(3):  # split at the commas outside <...>
                depth += (ch == '<') - (ch == '>')
                if ch == ',' and depth == 0:
                    parts.append(cur); cur = ""
                else:
                    cur += ch
            parts.append(cur)
            for a in [x.strip() for x in parts if x.strip()]:
                w = a.split()
                args.append((w[0] == "out", " ".join(w[1:-1]) if w[0] == "out" else " ".join(w[:-1]), w[-1]))
            if '<' in mm.group(1) or '>' in mm.group(1):
                args.append((True, "<" + mm.group(1).strip(), ""))  # a container return value: treated like a container out parameter
            ops.append((mm.group(2), mm.group(1).strip() != "void", args))
        out.append((m.group(1), ops))
    return out

def upper1(s):
    return s[0].upper() + s[1:]

def copy_back_clauses(nread, hasret, trace=True):
    """Reply maps of a two-way proxy (C01: the caller gets the response context / status the implementation set):
    the maps handed to TarsInvoke are the caller's opts[0] / opts[1]; on a successful return the context map holds
    nothing but entries of the reply's Context with their values (it is emptied, then filled from the reply), likewise
    the status map and the reply's Status. With two maps the claim about the context map needs the status map to be a
    different map from it and from the reply's Context (else the second pair of loops legitimately rewrites it).
    The converse inclusion (every reply entry arrives) is not proved: the copy loops insert into a map of the ranged
    type, for which the range gives no completeness fact. Ghosts gresp/gctx/gsta name the reply packet and the two
    maps; every call in between is a havoc for ghosts too, so they are re-established after each later call site.
    The six loops are, in source order: clear, copy (one map given); clear, copy, clear, copy (two maps given)."""
    RC = 'cast(obj.gresp, "*requestf.ResponsePacket")'
    GC = 'cast(obj.gctx, "map[string]string")'
    GS = 'cast(obj.gsta, "map[string]string")'
    def sub(m, R):
        return '(forall k: seq {%s[k]} {haskey(%s, k)} :: haskey(%s, k) ==> (haskey(%s, k) && %s[k] == %s[k]))' % (m, m, m, R, m, R)
    def cleared(n, m):
        return ('(forall k: seq {visited(%d, k)} :: visited(%d, k) ==> !haskey(%s, k)) && '
                '(forall k: seq {haskey(%s, k)} :: haskey(%s, k) ==> atentry(%d, haskey(%s, k)))') % (n, n, m, m, m, n, m)
    base = 'obj.gresp == addr(*tarsResp) && obj.gctx == contextMap && obj.gsta == statusMap'
    res = 'result1' if hasret else 'result0'
    apart = '(statusMap != contextMap && statusMap != tarsResp.Context)'
    o = ['//@   site TarsInvoke#0 assert [C01,C16] ((len(opts) == 1 || len(opts) == 2) ==> $5 == opts[0]) && (len(opts) == 2 ==> $4 == opts[1]) && $5 == contextMap && $4 == statusMap && $6 == tarsResp']
    for site in ['TarsInvoke#0'] + (['NewReader#0'] if nread else []) + [').Read#%d' % k for k in range(nread)] + (['Trace).Call#1', 'tars.Trace#1'] if trace else []):
        o += ['//@   site %s ghostafter obj.gresp = addr(*tarsResp)' % site,
              '//@   site %s ghostafter obj.gctx = contextMap' % site,
              '//@   site %s ghostafter obj.gsta = statusMap' % site]
    o += ['//@   ensures [C01,C16] (%s == nil && len(opts) == 1) ==> %s' % (res, sub(GC, RC + '.Context')),
          '//@   ensures [C01,C16] (%s == nil && len(opts) == 2) ==> %s' % (res, sub(GS, RC + '.Status')),
          '//@   ensures [C01,C16] (%s == nil && len(opts) == 2 && obj.gsta != obj.gctx && obj.gsta != %s.Context) ==> %s' % (res, RC, sub(GC, RC + '.Context')),
          '//@   loop 0 invariant %s && len(opts) == 1 && %s' % (base, cleared(0, 'contextMap')),
          '//@   loop 1 invariant %s && len(opts) == 1 && %s' % (base, sub('contextMap', 'tarsResp.Context')),
          '//@   loop 2 invariant %s && len(opts) == 2 && %s' % (base, cleared(2, 'contextMap')),
          '//@   loop 3 invariant %s && len(opts) == 2 && %s' % (base, sub('contextMap', 'tarsResp.Context')),
          '//@   loop 4 invariant %s && len(opts) == 2 && %s && (%s ==> %s)' % (base, cleared(4, 'statusMap'), apart, sub('contextMap', 'tarsResp.Context')),
          '//@   loop 5 invariant %s && len(opts) == 2 && %s && (%s ==> %s)' % (base, sub('statusMap', 'tarsResp.Status'), apart, sub('contextMap', 'tarsResp.Context'))]
    o += ['//@   loop %d modifies mapcells(%s)' % (n, 'contextMap' if n < 4 else 'statusMap') for n in range(6)]
    return o


def iface_contracts(pkg, trace=True, only=None):
    """Wire agreement of the generated proxies and dispatcher with the IDL (C16/C01): parameter number i of an
    operation travels under tag i+1 in both directions, the return value under tag 0, and in the TUP encoding every
    attribute is its own buffer read and written under tag 0. The clauses speak about the codec calls of each
    function in source order (`site ).Read#k`: the k-th call of a Read* / ReadBlock method; `$2` is its tag argument);
    `sites` pins their number, so a call that the IDL does not account for fails too. Parameters of container type
    are read and written by inline code (no single call carries the tag): operations that have one are skipped."""
    o = []
    for iface, ops in idl_interfaces(pkg):
        if only is not None and iface not in only:
            continue
        drd, dwr = [], []
        skipped = False
        for op, hasret, args in ops:
            if any(('<' in t or '[' in t) for _, t, _ in args):
                skipped = True
                continue
            ins = [(i + 1) for i, (out, _, _) in enumerate(args) if not out]
            outs = [(i + 1) for i, (out, _, _) in enumerate(args) if out]
            alls = [(i + 1) for i in range(len(args))]
            ret = [0] if hasret else []
            loops6 = ["//@   loop %d invariant true\n//@   loop %d modifies everything" % (k, k) for k in range(6)]
            # proxy: every parameter is written under its tag; the reply carries the return value and the out parameters
            o += ["//@ func (*%s).%sWithContext" % (iface, upper1(op)), "//@   noframe"]
            o += ["//@   site ).Write#%d assert [C01,C16] $2 == %d" % (k, t) for k, t in enumerate(alls)]
            o += ["//@   sites ).Write = %d" % len(alls)]
            # the call goes out as a normal (two-way) packet under the operation's IDL name
            o += ['//@   site TarsInvoke#0 assert [C01,C16] $1 == 0 && $2 == "%s"' % op, "//@   sites TarsInvoke = 1"]
            rd = ret + outs
            o += ["//@   site ).Read#%d assert [C01,C16] $2 == %d" % (k, t) for k, t in enumerate(rd)]
            o += ["//@   sites ).Read = %d" % len(rd)] + copy_back_clauses(len(rd), hasret, trace) + ["//"]
            o += ["//@ func (*%s).%sOneWayWithContext" % (iface, upper1(op)), "//@   noframe"]
            o += ["//@   site ).Write#%d assert [C01,C16] $2 == %d" % (k, t) for k, t in enumerate(alls)]
            o += ["//@   sites ).Write = %d" % len(alls), "//@   sites ).Read = 0"]
            # the one-way variant sends the same operation name with the one-way packet type and reads no reply
            o += ['//@   site TarsInvoke#0 assert [C01,C16] $1 == 1 && $2 == "%s"' % op, "//@   sites TarsInvoke = 1", "//"]
            # dispatcher, per operation: TARS branch then TUP branch
            drd += ins + [0] * len(ins)
            dwr += ret + outs + [0] * len(ret + outs) + [None]  # the JSON reply is one untagged byte-slice write
        if skipped:
            continue  # the ordinals of Dispatch would not line up; nothing is claimed about this interface's dispatcher
        o += ["//@ func (*%s).Dispatch" % iface, "//@   noframe"]
        # C01 (on failure the caller gets the implementation's error): an error returned by the servant implementation
        # is what Dispatch returns, unchanged - the server maps it to the reply's code and message from its dynamic type
        # (ghost gimpfail: the implementation has just returned an error, gimperr: which. Every call is a havoc for
        # ghosts, so the flag is cleared after each call and no call may be made while it is set: between the
        # implementation's failure and the return nothing runs - a wrapper around the error would be such a call)
        anyin = any(not out for _, _, args in ops for out, _, _ in args)
        o += ["//@   site %s#0 ghost obj.gimpfail = false" % ("Int8ToByte" if anyin else "codec.NewReader"),
              "//@   site *#0 assert [C01,C16] !obj.gimpfail",
              "//@   site *#0 ghostafter obj.gimpfail = false"]
        for op, hasret, args in ops:
            r = "$ret1" if hasret else "$ret"
            for sv in ("%sServant)" % iface, "%sServantWithContext)" % iface):
                o += ["//@   site %s.%s#0 ghostafter obj.gimperr = %s" % (sv, upper1(op), r),
                      "//@   site %s.%s#0 ghostafter obj.gimpfail = %s != nil" % (sv, upper1(op), r),
                      "//@   sites %s.%s = 1" % (sv, upper1(op))]
        o += ["//@   ensures [C01,C16] obj.gimpfail ==> result == obj.gimperr", "//@   perreturn"]
        o += ["//@   site ).Read#%d assert [C01,C16] $2 == %d" % (k, t) for k, t in enumerate(drd)]
        o += ["//@   sites ).Read = %d" % len(drd)]
        o += ["//@   site ).Write#%d assert [C01,C16] $2 == %d" % (k, t) for k, t in enumerate(dwr) if t is not None]
        o += ["//@   sites ).Write = %d" % len(dwr), "//"]
    return o


def parse_type(t):
    """IDL type -> ('map', K, V) | ('vector', T) | ('name', t)"""
    t = t.strip()
    def split_top(x):
        d, out, cur = 0, [], ""
        for ch in x:
            if ch == '<': d += 1
            if ch == '>': d -= 1
            if ch == ',' and d == 0:
                out.append(cur); cur = ""
            else:
                cur += ch
        out.append(cur)
        return [y.strip() for y in out]
    m = re.match(r'^(map|vector|array)\s*<(.*)>$', t, re.S)
    if not m:
        return ("name", re.sub(r'\s+', ' ', t))
    args = split_top(m.group(2))
    if m.group(1) == "map" and len(args) == 2:
        return ("map", parse_type(args[0]), parse_type(args[1]))
    return (m.group(1), parse_type(args[0]))


WIRE = {"LIST": 9, "MAP": 8, "SimpleList": 13, "BYTE": 0}

def writer_skeleton(idl, mem):
    """The codec calls of a generated WriteTo in source order, with the tag each of them must carry (C03: every member
    under its declared tag, container elements under tag 0, map keys under 0 and values under 1, a container as LIST /
    MAP / SimpleList head followed by its element count under tag 0): [(wire type of a WriteHead or None, tag or None)].
    None for the tag: the call takes none (the byte payload of a SimpleList)."""
    out = []
    def walk(t, tag):
        if t[0] == "map":
            out.append(("MAP", tag)); out.append((None, 0))
            walk(t[1], 0); walk(t[2], 1)
        elif t[0] == "vector" and t[1] == ("name", "byte"):
            out.append(("SimpleList", tag)); out.append(("BYTE", 0)); out.append((None, 0)); out.append((None, None))
        elif t[0] == "vector":
            out.append(("LIST", tag)); out.append((None, 0))
            walk(t[1], 0)
        else:
            out.append((None, tag))  # scalar, string, enum, or a struct block
    for tag, req, ity, name, dflt in sorted(mem):
        t = parse_type(ity)
        if t[0] == "array":
            t = ("vector", t[1])
        walk(t, tag)
    return out

def writer_skeleton_clauses(idl, mem):
    o = []
    sk = writer_skeleton(idl, mem)
    for k, (wt, tag) in enumerate(sk):
        if tag is None:
            continue
        c = "$2 == %d" % tag
        if wt is not None:
            c = "$1 == %d && " % WIRE[wt] + c
        o.append("//@   site ).Write#%d assert [C03] %s" % (k, c))
    o.append("//@   sites ).Write = %d" % len(sk))
    # the element count written behind the head of a container member is the length of that member (only for the
    # containers that are members themselves: a nested container is held by a loop variable)
    k = 0
    for tag, req, ity, name, dflt in sorted(mem):
        t = parse_type(ity)
        isarr = t[0] == "array"  # a fixed array: its count is a constant of the generated code, nothing to compare
        if isarr:
            t = ("vector", t[1])
        n = len(writer_skeleton(idl, [(tag, req, ity, name, dflt)]))
        if (t[0] == "map" or t[0] == "vector") and not isarr:
            at = k + (2 if (t[0] == "vector" and t[1] == ("name", "byte")) else 1)
            o.append("//@   site ).Write#%d assert [C03] $1 == s32(len(st.%s))" % (at, upper1(name)))
        k += n
    return o


def reader_skeleton(idl, mem):
    """The codec calls of a generated ReadFrom in source order (C04: every member is looked up under its declared tag
    with its declared require flag; container heads, counts, elements, keys and values under the fixed tags 0/0/0/0/1
    and always required): two lists, for the Read*/ReadBlock calls [(tag, require) or None] and for the
    SkipTo/SkipToNoCheck calls [(wire type or None, tag, require)]."""
    reads, skips = [], []
    def walk(t, tag, req):
        if t[0] == "map":
            skips.append(("MAP", tag, req)); reads.append((0, True))
            walk(t[1], 0, True); walk(t[2], 1, True)
        elif t[0] == "vector" and t[1] in (("name", "byte"), ("name", "unsigned byte")):
            # byte vectors are accepted in both forms: element list, or SimpleList with one payload
            skips.append((None, tag, req)); reads.append((0, True)); reads.append((0, True))
            skips.append(("BYTE", 0, True)); reads.append((0, True)); reads.append(None)
        elif t[0] in ("vector", "array"):
            skips.append((None, tag, req)); reads.append((0, True))
            walk(t[1], 0, True)
        else:
            reads.append((tag, req))
    for tag, req, ity, name, dflt in sorted(mem):
        walk(parse_type(ity), tag, req)
    return reads, skips

def reader_skeleton_clauses(idl, mem):
    o = []
    reads, skips = reader_skeleton(idl, mem)
    b = lambda x: "true" if x else "false"
    # error propagation (C06): an error reported by any codec call makes ReadFrom fail. Ghost readBuf.rderr is cleared at
    # the initial ResetDefault call and raised after every Read*/ReadBlock/SkipTo*/SkipToNoCheck call that returns an
    # error; it must be false again at every loop head (the reader returns at once) and imply a non-nil result.
    o.append("//@   site ResetDefault#0 ghost readBuf.rderr = false")
    for k, r in enumerate(reads):
        o.append("//@   site ).Read#%d ghostafter readBuf.rderr = readBuf.rderr || $ret != nil" % k)
    for k, (wt, tag, req) in enumerate(skips):
        o.append("//@   site ).Skip#%d ghostafter readBuf.rderr = readBuf.rderr || %s != nil" % (k, "$ret2" if wt is None else "$ret1"))
    o.append("//@   ensures [C06] readBuf.rderr ==> err != nil")
    for k, r in enumerate(reads):
        if r is not None:
            o.append("//@   site ).Read#%d assert [C04] $2 == %d && $3 == %s" % (k, r[0], b(r[1])))
    o.append("//@   sites ).Read = %d" % len(reads))
    for k, (wt, tag, req) in enumerate(skips):
        if wt is None:
            o.append("//@   site ).Skip#%d assert [C04] $1 == %d && $2 == %s" % (k, tag, b(req)))
        else:
            o.append("//@   site ).Skip#%d assert [C04] $1 == %d && $2 == %d && $3 == %s" % (k, WIRE[wt], tag, b(req)))
    o.append("//@   sites ).Skip = %d" % len(skips))
    return o


def reader_roles(idl, mem):
    """per Read*/ReadBlock call of a generated ReadFrom (same order as reader_skeleton): its role
    ('member'|'len'|'elem'|'key'|'val'|'payload', container ordinal or None, is a struct block)"""
    roles = []
    cont = [0]
    def walk(t, role, c):
        if t[0] == "map":
            k = cont[0]; cont[0] += 1
            roles.append(("len", k, False))
            walk(t[1], "key", k); walk(t[2], "val", k)
        elif t[0] == "vector" and t[1] in (("name", "byte"), ("name", "unsigned byte")):
            k = cont[0]; cont[0] += 1
            roles.append(("len", k, False)); roles.append(("elem", k, False))
            roles.append(("len", k, False)); roles.append(("payload", k, False))
        elif t[0] in ("vector", "array"):
            k = cont[0]; cont[0] += 1
            roles.append(("len", k, False))
            walk(t[1], "elem", k)
        else:
            roles.append((role, c, t[1] in idl))
    for tag, req, ity, name, dflt in sorted(mem):
        walk(parse_type(ity), "member", None)
    return roles

def reader_storage_clauses(idl, mem, body):
    """Where a generated reader stores what it reads (C03/C04: element i of a vector goes to index i; the entry of a map
    is read key first (tag 0) into the variable that is then used as the key of the map assignment, value (tag 1)
    into the one that is assigned). The loops of the reader are the containers in traversal order; their index
    variable, target and map assignment are taken from the source, the roles from the IDL."""
    ls = loops(body)
    lines = body.split("\n")
    # map assignment per loop: target[key] = value (first such line after the loop head, before the next loop)
    heads = [i for i, l in enumerate(lines) if re.search(r'^\s*for\b', l)]
    assigns = {}
    for n, h in enumerate(heads):
        end = heads[n + 1] if n + 1 < len(heads) else len(lines)
        # the assignment of a map loop comes after nested loops too: search until the loop's closing brace
        ind = len(lines[h]) - len(lines[h].lstrip("\t"))
        for j in range(h + 1, len(lines)):
            l = lines[j]
            if l.strip() == "}" and len(l) - len(l.lstrip("\t")) == ind:
                break
            m = re.match(r'^\s*(\S+)\[(\w+)\] = (\w+)\s*$', l)
            if m and (len(l) - len(l.lstrip("\t"))) == ind + 1:
                assigns[n] = (m.group(1), m.group(2), m.group(3))
    o = []
    roles = reader_roles(idl, mem)
    # containers whose elements are bytes live in the byte heap of the verifier (no per-element address)
    bytelike, cnt = set(), [0]
    def mark(t):
        if t[0] == "map":
            cnt[0] += 1; mark(t[1]); mark(t[2])
        elif t[0] in ("vector", "array"):
            k = cnt[0]; cnt[0] += 1
            if t[1] in (("name", "byte"), ("name", "unsigned byte"), ("name", "bool")):
                bytelike.add(k)
            mark(t[1])
    for tag, req, ity, name, dflt in sorted(mem):
        mark(parse_type(ity))
    for k, (role, c, isblock) in enumerate(roles):
        if c is None or c >= len(ls):
            continue
        info = ls[c]
        arg = "$0" if isblock else "$1"   # ReadBlock: the receiver is the destination
        if role == "elem" and info["kind"] == "vec" and info["target"] and info["idx"] and c not in bytelike:
            o.append("//@   site ).Read#%d assert [C04] %s == addr(%s[%s])" % (k, arg, info["target"], info["idx"]))
        elif role in ("key", "val") and info["kind"] == "map" and c in assigns:
            var = assigns[c][1] if role == "key" else assigns[c][2]
            o.append("//@   site ).Read#%d assert [C04] %s == addr(%s)" % (k, arg, var))
    return o

def writer_value_clauses(idl, mem, body):
    """What a generated writer writes in its container loops (C03): the element write of a vector loop writes the
    loop's element variable, the two writes of a map loop write the key variable under tag 0 and the value variable
    under tag 1 (variable names from the range statements of the source, in traversal order)."""
    ranges = re.findall(r'^\s*for (\w+), (\w+) := range (\S+) \{', body, re.M)
    sk = writer_skeleton(idl, mem)
    # walk the IDL again to know which skeleton entries are element / key / value writes of which container
    roles = []
    cont = [0]
    def walk(t, role, c):
        if t[0] == "map":
            k = cont[0]; cont[0] += 1
            roles.append(None); roles.append(None)
            walk(t[1], "key", k); walk(t[2], "val", k)
        elif t[0] == "vector" and t[1] == ("name", "byte"):
            roles.extend([None, None, None, None])
        elif t[0] in ("vector", "array"):
            k = cont[0]; cont[0] += 1
            roles.append(None); roles.append(None)
            walk(t[1], "elem", k)
        else:
            roles.append((role, c, t[1] in idl))
    for tag, req, ity, name, dflt in sorted(mem):
        walk(parse_type(ity), "member", None)
    o = []
    if len(roles) != len(sk):
        return o
    for k, r in enumerate(roles):
        if r is None or r[1] is None or r[1] >= len(ranges) or r[2]:
            continue
        kv, vv, _ = ranges[r[1]]
        if r[0] == "key" and kv != "_":
            o.append("//@   site ).Write#%d assert [C03] $1 == %s" % (k, kv))
        elif r[0] == "val" and vv != "_":
            # (vector loops all call their element variable `v`: the name alone does not identify the loop, so the
            # element writes are not covered by this clause)
            o.append("//@   site ).Write#%d assert [C03] $1 == %s" % (k, vv))
    return o

def readblock_sites(idl, mem, src):
    """the ReadBlock calls of a generated ReadFrom in source order: (go type, is a map key/value temporary)"""
    out = []
    def walk(t, in_map):
        if t[0] == "map":
            walk(t[1], True); walk(t[2], True)
        elif t[0] in ("vector", "array"):
            walk(t[1], False)
        elif t[1] in idl:
            out.append((t[1], in_map))
    for tag, req, ity, name, dflt in sorted(mem):
        walk(parse_type(ity), False)
    return out

def fresh_temporary_clauses(idl, mem, src):
    """A struct-typed key or value of a map is decoded into a temporary; ReadBlock resets only the members with a
    declared default, so the other optional members must be at their zero value when it is called: the temporary
    is a fresh one for every entry (C03: an absent optional member decodes to its default, for every entry)."""
    o = []
    for k, (sty, in_map) in enumerate(readblock_sites(idl, mem, src)):
        if not in_map:
            continue
        fields = go_fields(src, sty)
        conds = []
        for tag, req, ity, name, dflt in sorted(idl[sty]):
            if req or dflt is not None or name not in fields:
                continue
            f = "$0." + fields[name][0]
            if ity in SCALAR and ity != "string" and ity != "bool":
                conds.append("%s == 0" % f)
            elif ity == "string":
                conds.append('%s == ""' % f)
            elif ity == "bool":
                conds.append("%s == false" % f)
            elif ity.startswith("vector") or ity.startswith("map"):
                conds.append("len(%s) == 0" % f)
        if conds:
            o.append("//@   site ).ReadBlock#%d assert [C03] %s" % (k, " && ".join(conds)))
    return o

def go_fields(src, ty):
    """{idl name: (Go field, tag, required)} from the struct tags of the generated struct"""
    m = re.search(r'^type %s struct \{\n(.*?)^\}' % ty, src, re.S | re.M)
    res = {}
    if not m:
        return res
    for l in m.group(1).split('\n'):
        mm = re.match(r'\s*(\w+)\s+\S+\s+`.*tars:"(\w+),tag:(\d+),require:(true|false)"`', l)
        if mm:
            res[mm.group(2)] = (mm.group(1), int(mm.group(3)), mm.group(4) == "true")
    return res

INTVEC = {"vector<short>": 2, "vector<int>": 4, "vector<long>": 8}

def struct_parts(pkg, sty, idl, src, path, reqs):
    """encoding of the members of a nested struct value at `path` (all scalar), as one concatenation; None if the
    struct has a member this derivation does not cover"""
    fields = go_fields(src, sty)
    parts, last = [], -1
    for tag, req, ity, name, dflt in sorted(idl[sty]):
        if ity not in SCALAR or name not in fields or fields[name][1] != tag or fields[name][2] != req or tag <= last:
            return None
        last = tag
        f = path + "." + fields[name][0]
        enc = "%s(%d, %s)" % (SCALAR[ity], tag, f)
        if ity == "string":
            reqs.append("len(%s) < 4294967296" % f)
        if req or ity == "enum":
            parts.append(enc)
        else:
            d = dflt if dflt is not None else ('""' if ity == "string" else ("false" if ity == "bool" else "0"))
            parts.append("(%s != %s ? %s : [])" % (f, d, enc))
    return parts

def schema_contract(pkg, ty, mem, fields, idl=None, src=None):
    """WriteTo contract of a struct whose members are scalars, strings, vectors of signed integers and structs of
    scalars: bytes == schema encoding"""
    steps, reqs = [], ["st != nil", "validB(buf)"]
    full = True
    last = -1
    for tag, req, ity, name, dflt in sorted(mem):
        if name not in fields or fields[name][1] != tag or fields[name][2] != req:
            raise SystemExit("%s.%s.%s: IDL and struct tags disagree" % (pkg, ty, name))
        if tag <= last:
            raise SystemExit("%s.%s: tags not ascending" % (pkg, ty))
        last = tag
        f = "st." + fields[name][0]
        if ity.replace(" ", "") in INTVEC:
            # vector of integers: written when required or non-empty; three codec calls (head, count, element in the
            # loop) and 4 conditional branches (+1 for the emptiness test of an optional member)
            w = INTVEC[ity.replace(" ", "")]
            reqs.append("len(%s) < 2147483648" % f)
            steps.append((None if req else "len(%s) > 0" % f, "encVecInts(%d, ints(%s), %d)" % (tag, f, w), 3, 4,
                          "head(LIST, %d) ++ encInt32(0, len(%s)) ++ encIntsW(ints(%s), rangeindex + 1, %d)" % (tag, f, f, w)))
            continue
        if idl is not None and ity in idl and src is not None:
            # a member of struct type is written as a block under the member's tag, required or not: StructBegin head,
            # the members of the nested value, StructEnd head (one WriteBlock call, one error check)
            parts = struct_parts(pkg, ity, idl, src, f, reqs)
            if parts is None:
                full = False
                break
            steps.append((None, " ++ ".join(["head(StructBegin, %d)" % tag] + parts + ["head(StructEnd, 0)"]), 0, 1, None))
            continue
        if ity not in SCALAR:
            full = False
            break
        enc = "%s(%d, %s)" % (SCALAR[ity], tag, f)
        if ity == "string":
            reqs.append("len(%s) < 4294967296" % f)
        if req or ity == "enum":
            # an optional member of enum type is always written by the generator; that is a conformant encoding
            # (a present member equal to its default decodes to the same value), so the schema accepts it
            steps.append((None, enc, 1, 1, None))
        else:
            if dflt is None:
                d = '""' if ity == "string" else ("false" if ity == "bool" else "0")
            else:
                d = dflt
            steps.append(("%s != %s" % (f, d), enc, 1, 1, None))
    if not steps:
        return []
    # the expected bytes, built member by member in the order of the schema: e<k> = bytes after member k
    o = ["//@ func (*%s).WriteTo" % ty,
         "//@   requires " + " && ".join(reqs),
         "//@   let e0 = buf.buf.bytes"]
    for k, (cond, enc, _, _, _) in enumerate(steps):
        if cond is None:
            o.append("//@   let e%d = e%d ++ %s" % (k + 1, k, enc))
        else:
            o.append("//@   let e%d = (%s ? e%d ++ %s : e%d)" % (k + 1, cond, k, enc, k))
    o += ["//@   let pre = e%d" % len(steps),
          "//@   opaque head encInt8 encInt16 encInt32 encInt64 encString encBool",
          "//@   perreturn",
          "//@   modifies buf.buf.bytes"]
    if full:
        o.append("//@   ensures [C03] err == nil && buf.buf.bytes == pre")
    else:
        return []  # structs with map/struct/string-vector members: not derived (requestf's two packets are written by hand)
    # element loops of the vector members (range loops, in member order): everything before the member, the head, the
    # count and the elements written so far
    nl = 0
    for k, (cond, enc, _, _, inv) in enumerate(steps):
        if inv:
            o.append("//@   loop %d invariant [C03] err == nil && buf.buf.bytes == e%d ++ %s" % (nl, k, inv))
            nl += 1
    if sum(1 for st_ in steps if st_[0] is not None) > 3 or nl > 0:
        # many optional members: cut the 2^n paths with the intermediate fact in front of each member's write
        # (a required member's first write is codec call number <calls so far>; an optional member's test is conditional
        # branch number <branches so far>: each codec call is followed by its error check, a loop has its own test)
        ncall, nif = 0, 0
        for k, (cond, _, calls, ifs, _) in enumerate(steps):
            if k > 0:
                if cond is None:
                    o.append("//@   site Buffer).Write#%d assert [C03] buf.buf.bytes == e%d" % (ncall, k))
                else:
                    o.append("//@   site if#%d assert [C03] buf.buf.bytes == e%d" % (nif, k))
            ncall += calls
            nif += ifs + (0 if cond is None else 1)
    o += ["//@   safety [C03]", "//",
          "//@ func (*%s).WriteBlock" % ty,
          "//@   requires " + " && ".join(reqs),
          "//@   let e0 = buf.buf.bytes ++ head(StructBegin, tag)"]
    for k, (cond, enc, _, _, _) in enumerate(steps):
        if cond is None:
            o.append("//@   let e%d = e%d ++ %s" % (k + 1, k, enc))
        else:
            o.append("//@   let e%d = (%s ? e%d ++ %s : e%d)" % (k + 1, cond, k, enc, k))
    o += ["//@   let pre = e%d ++ head(StructEnd, 0)" % len(steps),
          "//@   opaque head encInt8 encInt16 encInt32 encInt64 encString encBool",
          "//@   perreturn",
          "//@   modifies buf.buf.bytes",
          "//@   ensures [C03] result == nil && buf.buf.bytes == pre",
          "//@   safety [C03]", "//"]
    return o

GOFILE, IDLFILE = {}, {}
# checked-in proxies / dispatchers (*.tars.go, generated without trace code) that get the interface contracts too
IFACE_IDL = {"adminf": "AdminF.tars", "authf": "AuthF.tars", "configf": "ConfigF.tars", "nodef": "NodeF.tars",
             "notifyf": "NotifyF.tars"}  # (queryf, logf, statf, propertyf: every operation has a container parameter or result)
IFACE_ONLY = ["adminf"]  # packages without a struct file of their own

def enum_check(pkg, src):
    """Executed closed check (no quantifier): every enumerator constant of the generated file has the value the IDL
    prescribes - an explicit integer, else the predecessor's value plus one, 0 for a leading implicit one.
    Enumerators given by name (A = B) and everything after them in that enum are not compared."""
    text = open(IDLFILE.get(pkg, "%s/tars/protocol/res/%s" % (REPO, IDL.get(pkg, "")))).read()
    text = re.sub(r'/\*.*?\*/', '', text, flags=re.S)
    text = re.sub(r'//[^\n]*', '', text)
    bad = []
    for m in re.finditer(r'\benum\s+(\w+)\s*\{(.*?)\}', text, re.S):
        en, nxt = m.group(1), 0
        for item in [x.strip() for x in m.group(2).split(',') if x.strip()]:
            mm = re.match(r'^(\w+)\s*(?:=\s*(\S+))?$', item)
            if not mm:
                break
            if mm.group(2) is not None:
                try:
                    nxt = int(mm.group(2), 0)
                except ValueError:
                    break
            g = re.search(r'\b%s_%s\s+(?:%s\s+)?=\s*(-?\w+)' % (re.escape(upper1(en)), re.escape(mm.group(1)), re.escape(upper1(en))), src)
            if not g:
                bad.append("enum %s: no constant for %s in the generated file" % (en, mm.group(1)))
            else:
                try:
                    have = int(g.group(1), 0)
                except ValueError:
                    have = None
                if have != nxt:
                    bad.append("enum %s: %s is %s in the generated file, the IDL prescribes %d" % (en, mm.group(1), g.group(1), nxt))
            nxt += 1
    if bad:
        print("\n".join(bad))
        sys.exit(1)

def gen(pkg):
    fn = GOFILE.get(pkg, "%s/tars/protocol/res/%s/%sF.go" % (REPO, pkg, pkg[:-1].capitalize()))
    src = open(fn).read()
    o = ["//go:build verif", "",
         "// Contracts for the generated bindings of this package, derived mechanically by /verif/tools/gencontracts.py;",
         "// checked by /verif/govc. Comments only. C05 (decoder totality): from the shape of the generated readers.",
         "// C03 (schema encoding): from the IDL file of the package - for a struct whose members are all scalars or",
         "// strings, WriteTo appends exactly the members in ascending tag order, each under its declared tag and wire",
         "// type, required ones always, optional ones unless equal to their declared default.", "",
         "package " + pkg, ""]
    idl = idl_structs(pkg)
    enum_check(pkg, src)
    done = set()
    for ty, name, body in methods(src):
        if name == "WriteTo" and ty in idl and ty not in done:
            done.add(ty)
            sc = schema_contract(pkg, ty, idl[ty], go_fields(src, ty), idl, src)
            sk = writer_skeleton_clauses(idl, idl[ty]) + writer_value_clauses(idl, idl[ty], body)
            if sc:
                # the tag skeleton goes into the WriteTo block of the functional contract (first "safety" line)
                i = sc.index("//@   safety [C03]")
                sc = sc[:i] + sk + sc[i:]
                o += sc
            else:
                # members the functional derivation does not cover (maps, vectors of strings or structs, arrays):
                # at least every codec call carries the tag and the wire type the IDL prescribes
                o += ["//@ func (*%s).WriteTo" % ty, "//@   argsonly", "//@   noframe", "//@   allocates"] + sk + ["//"]
        if name == "ResetDefault":
            dfl = []
            if ty in idl:
                flds = go_fields(src, ty)
                dfl = [("st." + flds[n][0], d) for (_, _, ity, n, d) in sorted(idl[ty]) if d is not None and ity in SCALAR]
            o += ["//@ func (*%s).ResetDefault" % ty, "//@   requires st != nil"]
            if dfl:
                o += ["//@   modifies " + ", ".join(f for f, _ in dfl),
                      "//@   ensures [C04] " + " && ".join("%s == %s" % (f, d) for f, d in dfl)]
            elif ty in idl:
                o += ["//@   pure"]
            else:
                o += ["//@   modifies *st"]
            o += ["//@   safety [C05]", "//"]
        elif name == "ReadFrom":
            lets, ens = [], []
            if ty in idl and scalar_prefix(idl[ty]):
                pre = scalar_prefix(idl[ty])
                lets, ens = reader_schema(pkg, ty, pre, go_fields(src, ty), whole=(len(pre) == len(idl[ty])))
                lets = ["//@   let src = readBuf.buf.src", "//@   let d0 = readBuf.depth"] + lets + ["//@   opaque [C04,C06] *", "//@   perreturn"]
            o += ["//@ func (*%s).ReadFrom" % ty,
                  "//@   requires st != nil && validR(readBuf)",
                  "//@   let p0 = readBuf.buf.i",
                  "//@   let allocbudget = 256 * len(readBuf.buf.src)",
                  "//@   modifies *st, readBuf.rderr, readBuf.buf.i, readBuf.depth",
                  "//@   allocates",
                  "//@   ensures [C05] readBuf.buf.i >= p0",
                  "//@   ensures [C05] validR(readBuf)"] + lets + ens
            lc = loop_clauses(body)
            if len(loops(body)) > 2 and "//@   perreturn" not in lets:
                # many loops, many returns: one exit obligation per return keeps each query small
                o += ["//@   perreturn"]
            o += lc
            if ty in idl:
                o += fresh_temporary_clauses(idl, idl[ty], src)
                o += reader_skeleton_clauses(idl, idl[ty])
                o += reader_storage_clauses(idl, idl[ty], body)
            o += ["//@   safety [C05]", "//"]
        elif name == "ReadBlock":
            o += ["//@ func (*%s).ReadBlock" % ty,
                  "//@   requires st != nil && validR(readBuf)",
                  "//@   let p0 = readBuf.buf.i",
                  "//@   let allocbudget = 256 * len(readBuf.buf.src)",
                  "//@   modifies *st, readBuf.rderr, readBuf.buf.i, readBuf.depth",
                  "//@   allocates",
                  "//@   ensures [C05] readBuf.buf.i >= p0",
                  "//@   ensures [C05] validR(readBuf)",
                  "//@   ensures [C06] (readBuf.rderr && !old(readBuf.rderr)) ==> result != nil",
                  "//@   safety [C05]", "//"]
    return "\n".join(o).rstrip("/\n") + "\n"

def main():
    check = "--check" in sys.argv
    bad = 0
    pkgs = PKGS
    if "--pkg" in sys.argv:
        # one extra package outside the fixed list: --pkg <name> --go <generated file> --idl <tars file>
        a = sys.argv
        pkg = a[a.index("--pkg") + 1]
        GOFILE[pkg] = a[a.index("--go") + 1]
        IDLFILE[pkg] = a[a.index("--idl") + 1]
        text = gen(pkg)
        ic = iface_contracts(pkg)
        if ic:
            text = text.rstrip("\n") + "\n//\n" + "\n".join(ic).rstrip("/\n") + "\n"
        open(os.path.join(os.path.dirname(GOFILE[pkg]), "contracts_verif.go"), "w").write(text)
        return
    for pkg in pkgs + [x for x in IFACE_ONLY if x not in pkgs]:
        if pkg in IFACE_ONLY:
            text = "\n".join(["//go:build verif", "",
                "// Contracts for the generated proxies and dispatcher of this package, derived mechanically from the IDL file by",
                "// /verif/tools/gencontracts.py; checked by /verif/govc. Comments only.", "", "package " + pkg, ""]) + "\n"
        else:
            text = gen(pkg)
        if pkg in IFACE_IDL:
            IDLFILE[pkg] = "%s/tars/protocol/res/%s" % (REPO, IFACE_IDL[pkg])
            ic = iface_contracts(pkg, trace=False)
            if ic:
                text = text.rstrip("\n") + "\n//\n" + "\n".join(ic).rstrip("/\n") + "\n"
        path = "%s/tars/protocol/res/%s/contracts_verif.go" % (REPO, pkg)
        if check:
            if not os.path.exists(path) or open(path).read() != text:
                print("contracts of", pkg, "are not up to date"); bad = 1
        else:
            open(path + ".tmp", "w").write(text)
            os.replace(path + ".tmp", path)  # atomic: a check running concurrently never reads a half-written file
    sys.exit(bad)
main()
