#!/bin/sh
# usage: tools/try_seed.sh <seed dir containing patch.diff> <Cxx> [more props...]
# Applies the patch to /repo, runs the quick checks of the given properties, reverts.
SEED="$1"; shift
cd /repo || exit 2
if ! git diff --quiet; then echo "refusing: /repo has uncommitted changes"; exit 2; fi
git apply "$SEED/patch.diff" || { echo "patch does not apply"; exit 2; }
for P in "$@"; do
  (cd /verif && ./bin/govc check -prop "$P" -no-evidence 2>&1 | grep -E "FAIL|VIOLATION|BROKEN|^govc" | cut -c1-220 | sed "s/^/[$P] /")
done
git -C /repo checkout -- . 
