#!/bin/bash
# usage: tools/recheck_seed.sh <seed id> <props...>
# re-runs the checks of the given properties against a stored seeded change (applied to /repo, reverted afterwards)
# and refreshes seeded/<id>/check_results.txt and the caught/violations fields of meta.json.
set -u
ID="$1"; shift
OUT=/verif/seeded/$ID
export GOFLAGS=-mod=mod GOPROXY=off GOSUMDB=off GOTOOLCHAIN=local
git -C /repo diff --quiet || { echo "/repo dirty"; exit 2; }
RES="$OUT/check_results.txt"; : > "$RES"
git -C /repo apply "$OUT/patch.diff" || exit 2
for P in "$@"; do
  (cd /verif && ./bin/govc check -prop "$P" -no-evidence 2>&1 | grep -E "FAIL|VIOLATION|BROKEN|^govc" | cut -c1-240 | sed "s/^/[$P] /") >> "$RES"
  if [ "$P" = "C16" ]; then
    (cd /verif && CORPUS_NO_EVIDENCE=1 tools/corpus_check.sh "$P" 2>&1 | grep -E "FAIL|VIOLATION|BROKEN|^corpus:" | cut -c1-240 | sed "s/^/[$P] /") >> "$RES"
  fi
done
git -C /repo checkout -- .
python3 - "$OUT" "$*" <<'PY'
import json, sys
out, props = sys.argv[1:3]
m = json.load(open(out + "/meta.json"))
n = sum(1 for l in open(out + "/check_results.txt") if "VIOLATION" in l)
m["checks_run"] = props.split(); m["violations_reported"] = n; m["caught"] = n > 0
json.dump(m, open(out + "/meta.json", "w"), indent=1)
print(m["id"], "caught=", m["caught"], "violations=", n)
PY
