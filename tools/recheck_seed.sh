#!/bin/bash
# usage: recheck_scratch.sh <seed id> <props...>  (like tools/recheck_seed.sh but on a scratch copy)
ID="$1"; shift
OUT=/verif/seeded/$ID
RES="$OUT/check_results.txt"; : > "$RES"
SC=$(mktemp -d /var/tmp/confirm-seed.XXXXXX)
rsync -a --exclude .git /repo/ "$SC"/
(cd "$SC" && patch -p1 -s --no-backup-if-mismatch < "$OUT/patch.diff" >/dev/null 2>&1) || echo "patch failed" >> "$RES"
for P in "$@"; do
  (cd /verif && ./bin/govc check -prop "$P" -repo "$SC" -no-evidence 2>&1 | grep -E "FAIL|VIOLATION|BROKEN|^govc" | cut -c1-240 | sed "s#$SC#/repo#g" | sed "s/^/[$P] /") >> "$RES"
  if [ "$P" = "C16" ]; then (cd /verif && VERIF_REPO="$SC" CORPUS_NO_EVIDENCE=1 tools/corpus_check.sh "$P" 2>&1 | grep -E "FAIL|VIOLATION|BROKEN|^corpus:" | cut -c1-240 | sed "s/^/[$P] /") >> "$RES"; fi
done
rm -rf "$SC"
python3 - "$OUT" "$*" <<'PY'
import json, sys
out, props = sys.argv[1:3]
m = json.load(open(out + "/meta.json"))
n = sum(1 for l in open(out + "/check_results.txt") if "VIOLATION" in l)
m["checks_run"] = props.split(); m["violations_reported"] = n; m["caught"] = n > 0
json.dump(m, open(out + "/meta.json", "w"), indent=1)
print(m["id"], "caught=", m["caught"], "violations=", n)
PY
